"""Independent reference for one flow time step, stage by stage (documented operator sequence).

Polymorphic over float arrays and SymArrays; built from ref/kernels_ref.py whole-array formulas.
Each stage function takes the state *before* the stage and returns the state after it.
"""
import math

import numpy as np

from ref import kernels_ref as R


def stage_forcing(w, f, dt, dx, rho, dim):
    """omega += dt/(2 dx rho) * curl_h(f)"""
    p = dt / (2 * dx * rho)
    if dim == 2:
        return R.update_vorticity_from_forcing_2d(w, f, p)
    return R.update_vorticity_from_forcing_3d(w, f, p)


def stage_transport_2d(w, u, dt, dx):
    """conservative ENO3 advection, Euler forward"""
    nw, _ = R.advection_timestep(w, u, dt / dx, 2)
    return nw


def stage_transport_3d(w, u, dt, dx):
    """rotational form: omega += dt/(2dx) * curl_h(u x omega)"""
    c = R.cross_3d(u, w)
    F = w * 0
    for i in range(3):
        F[i] = c[i]
    return R.update_vorticity_from_forcing_3d(w, F, dt / (2 * dx))


def stage_diffusion(w, nu, dt, dx, dim, vector):
    p = nu * dt / dx / dx
    if not vector:
        nw, _ = R.diffusion_timestep(w, p, dim)
        return nw
    out = w.copy()
    for i in range(w.shape[0]):
        out[i], _ = R.diffusion_timestep(w[i], p, dim)
    return out


def stage_filter(w, order, ftype):
    out = w.copy()
    for i in range(3):
        out[i] = R.laplacian_filter_scalar(w[i], order, ftype)
    return out


def ramp_factors(n_axes, width):
    """quarter-sine ramp sin(pi/2 * i/width), i = 0..width-1 cells from the face (cell centres)"""
    r = [math.sin((math.pi / 2) * i / width) for i in range(width)] if width else []
    return [r] * n_axes


def stage_boundary_zone(w, width, dim, vector, ramps=None):
    if width == 0:
        return w.copy()
    ramps = ramps or ramp_factors(dim, width)
    if not vector:
        return R.penalise_boundary(w, width, dim, ramps, ramps)
    out = w.copy()
    for i in range(w.shape[0]):
        out[i] = R.penalise_boundary(w[i], width, dim, ramps, ramps)
    return out


def greens_kernel(shape, dx, dim):
    """K[(i, j)] = G(|i-j| dx) dx^d, free-space Green's function of -Laplacian, documented self term"""
    cells = list(np.ndindex(*shape))
    K = {}
    dx = float(dx)
    for ci in cells:
        for cj in cells:
            r2 = sum((a - b) ** 2 for a, b in zip(ci, cj))
            if dim == 2:
                g = -(2 * math.log(dx / math.sqrt(math.pi)) - 1) / (4 * math.pi) if r2 == 0 else -math.log(dx * math.sqrt(r2)) / (2 * math.pi)
            else:
                g = 1 / (4 * math.pi * dx) if r2 == 0 else 1 / (4 * math.pi * dx * math.sqrt(r2))
            K[(ci, cj)] = g * dx**dim
    return cells, K


def stage_poisson_greens(w, dx, dim):
    """psi = K * omega (aperiodic convolution); scalar field"""
    cells, K = greens_kernel(w.shape, dx, dim)
    psi = w * 0
    for c in cells:
        acc = 0.0
        for cj in cells:
            acc = acc + K[(c, cj)] * w[cj]
        psi[c] = acc
    return psi


def _vec_like(a, n):
    out = np.empty((n, *a.shape), dtype=a.dtype).view(type(a))
    for i in range(n):
        out[i] = a * 0
    return out


def stage_velocity_2d(psi, dx, U):
    """u = curl_h(psi) (ring zero) + free stream"""
    out = R.outplane_curl_2d(_vec_like(psi, 2), psi, 0.5 / dx, reset=True)
    for a in range(2):
        out[a] = out[a] + U[a]
    return out


def stage_velocity_3d(psi, dx, U):
    out = R.curl_3d(psi * 0, psi, 0.5 / dx, reset=True)
    for a in range(3):
        out[a] = out[a] + U[a]
    return out
