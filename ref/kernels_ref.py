"""Independent reference formulas for SophT's Eulerian-grid operators.

Written from the documented operators (whole-array formulas with numpy slicing), polymorphic over
float ndarrays and SymArrays.  Array axes are (z, y, x): x is the LAST axis.  Every function returns
the expected *full* output array given the prior content `out0` of the output (cells the operator
does not own must keep their prior value).
"""
import numpy as np


def _copy(a):
    return a.copy()


def _sl(nd, g, off=None):
    """slice tuple selecting the interior (ghost g) of the last nd axes, shifted by off"""
    off = off or (0,) * nd
    return (Ellipsis,) + tuple(slice(g + o, (-g + o) if (-g + o) != 0 else None) for o in off)


def shifted(a, nd, g, **k):
    """a shifted by dx/dy/dz cells on the interior with ghost g"""
    off = [0] * nd
    for name, v in k.items():
        ax = {"dx": -1, "dy": -2, "dz": -3}[name]
        off[nd + ax] = v
    return a[_sl(nd, g, tuple(off))]


def set_ring(out, nd, w, val):
    """cells within w of any face of the last nd axes"""
    for ax in range(nd):
        idx = [slice(None)] * out.ndim
        idx[out.ndim - nd + ax] = slice(0, w)
        out[tuple(idx)] = val
        idx[out.ndim - nd + ax] = slice(-w, None)
        out[tuple(idx)] = val
    return out


# --------------------------------------------------------------------------------- elementwise
def laplacian(f, nd):
    """sum of second differences (h^2 * Laplacian) on interior(1)"""
    c = shifted(f, nd, 1)
    acc = -2 * nd * c
    for name in ("dx", "dy", "dz")[:nd]:
        acc = acc + shifted(f, nd, 1, **{name: 1}) + shifted(f, nd, 1, **{name: -1})
    return acc


def diffusion_flux(out0, f, p, nd, reset=True):
    out = _copy(out0)
    out[_sl(nd, 1)] = p * laplacian(f, nd)
    if reset:
        set_ring(out, nd, 1, 0 * p)
    return out


def ddx(f, nd, name):
    """centred difference f[+1]-f[-1] along axis name on interior(1)"""
    return shifted(f, nd, 1, **{name: 1}) - shifted(f, nd, 1, **{name: -1})


def curl_2d_of_vector(fx, fy):
    """(d/dx fy - d/dy fx) * 2h on interior(1)"""
    return ddx(fy, 2, "dx") - ddx(fx, 2, "dy")


def inplane_curl_2d(out0, field, p):
    out = _copy(out0)
    out[_sl(2, 1)] = p * curl_2d_of_vector(field[0], field[1])
    return out


def outplane_curl_2d(out0, psi, p, reset=True):
    """u = (d psi/dy, -d psi/dx)"""
    out = _copy(out0)
    out[0][_sl(2, 1)] = p * ddx(psi, 2, "dy")
    out[1][_sl(2, 1)] = -p * ddx(psi, 2, "dx")
    if reset:
        set_ring(out, 2, 1, 0 * p)
    return out


def curl_3d_of_vector(f):
    fx, fy, fz = f[0], f[1], f[2]
    return [
        ddx(fz, 3, "dy") - ddx(fy, 3, "dz"),
        ddx(fx, 3, "dz") - ddx(fz, 3, "dx"),
        ddx(fy, 3, "dx") - ddx(fx, 3, "dy"),
    ]


def curl_3d(out0, f, p, reset=True):
    out = _copy(out0)
    c = curl_3d_of_vector(f)
    for i in range(3):
        out[i][_sl(3, 1)] = p * c[i]
    if reset:
        set_ring(out, 3, 1, 0 * p)
    return out


def divergence_3d(out0, f, inv_dx, reset=True):
    out = _copy(out0)
    out[_sl(3, 1)] = (inv_dx / 2) * (ddx(f[0], 3, "dx") + ddx(f[1], 3, "dy") + ddx(f[2], 3, "dz"))
    if reset:
        set_ring(out, 3, 1, 0 * inv_dx)
    return out


def update_vorticity_from_forcing_2d(w0, f, p):
    out = _copy(w0)
    out[_sl(2, 1)] = shifted(w0, 2, 1) + p * curl_2d_of_vector(f[0], f[1])
    return out


def update_vorticity_from_forcing_3d(w0, f, p):
    out = _copy(w0)
    c = curl_3d_of_vector(f)
    for i in range(3):
        out[i][_sl(3, 1)] = shifted(w0[i], 3, 1) + p * c[i]
    return out


def cross_3d(a, b):
    return [a[1] * b[2] - a[2] * b[1], a[2] * b[0] - a[0] * b[2], a[0] * b[1] - a[1] * b[0]]


def stretching_flux_3d(out0, w, u, p):
    """p * (w . grad) u * 2h, ring zero"""
    out = _copy(out0)
    for i in range(3):
        out[i][_sl(3, 1)] = p * (
            shifted(w[0], 3, 1) * ddx(u[i], 3, "dx") + shifted(w[1], 3, 1) * ddx(u[i], 3, "dy") + shifted(w[2], 3, 1) * ddx(u[i], 3, "dz")
        )
    set_ring(out, 3, 1, 0 * p)
    return out


# --------------------------------------------------------------------------------- ENO3
def eno3_face_flux(g, u, nd, name, lo, hi_trim):
    """third-order ENO flux through the faces between cell c and cell c+1 along `name`,
    for c in [lo, n-1-hi_trim) along that axis and interior(2) along the others.
    g = u*f nodal flux.  Upwind-left stencil when u_c + u_{c+1} > 0, else upwind-right."""
    def at(a, k):
        # cells c+k for the face range
        idx = [slice(2, -2)] * nd
        ax = {"dx": -1, "dy": -2, "dz": -3}[name]
        n = a.shape[ax]
        idx[nd + ax] = slice(lo + k, n - 1 - hi_trim + k)
        return a[(Ellipsis, *idx)]

    left = (1 / 3) * at(g, 1) + (5 / 6) * at(g, 0) - (1 / 6) * at(g, -1)
    right = (1 / 3) * at(g, 0) + (5 / 6) * at(g, 1) - (1 / 6) * at(g, 2)
    return np.where(at(u, 0) + at(u, 1) > 0, left, right)


def eno3_flux_difference(f, u_comp, nd, name):
    """F_{c+1/2} - F_{c-1/2} on interior(2)"""
    g = u_comp * f
    # faces c+1/2 for c = 1 .. n-3  (face index = left cell)
    faces = eno3_face_flux(g, u_comp, nd, name, lo=1, hi_trim=1)
    ax = {"dx": -1, "dy": -2, "dz": -3}[name]
    hi = [slice(None)] * nd
    lo_ = [slice(None)] * nd
    hi[nd + ax] = slice(1, None)
    lo_[nd + ax] = slice(0, -1)
    return faces[(Ellipsis, *hi)] - faces[(Ellipsis, *lo_)]


def advection_flux(out0, f, u, inv_dx, nd):
    """out0 + inv_dx * div_h(u f) (conservative ENO3) on interior(2)"""
    out = _copy(out0)
    acc = shifted(out0, nd, 2)
    for i, name in enumerate(("dx", "dy", "dz")[:nd]):
        acc = acc + inv_dx * eno3_flux_difference(f, u[i], nd, name)
    out[_sl(nd, 2)] = acc
    return out


def advection_timestep(f0, u, dt_by_dx, nd):
    zero = f0 * 0
    flux = advection_flux(zero, f0, u, -dt_by_dx, nd)
    return f0 + flux, flux


def diffusion_timestep(f0, p, nd):
    flux = diffusion_flux(f0 * 0, f0, p, nd, reset=True)
    return f0 + flux, flux


# --------------------------------------------------------------------------------- penalisation
def brinkmann(u, ub, chi, lam):
    return (u + lam * chi * ub) / (1 + lam * chi)


def boundary_ramp(n, width, real_t=np.float64):
    """quarter-sine ramp factors for cells 0..width-1 counted from the face, evaluated at cell
    centres: sin(pi/2 * i / width), i = 0..width-1"""
    return [float(np.sin((np.pi / 2) * i / width)) for i in range(width)]


def penalise_boundary(f0, width, nd, ramp_front, ramp_back):
    """edge value broadcast into the zone then multiplied by the ramp; x first, then y, then z.
    ramp_front[ax][i], ramp_back[ax][i] : factor of the cell i cells away from the face."""
    out = _copy(f0)
    if width == 0:
        return out
    for k, name in enumerate(("dx", "dy", "dz")[:nd]):
        ax = out.ndim + {"dx": -1, "dy": -2, "dz": -3}[name]
        n = out.shape[ax]

        def cell(i):
            idx = [slice(None)] * out.ndim
            idx[ax] = slice(i, i + 1)
            return tuple(idx)

        # zone value = inner-edge value x ramp.  Defined for disjoint zones only (n >= 2*width): when the zones overlap
        # the library's result depends on the order of its four sub-steps (the back zone then copies a layer the front
        # fill has already overwritten) and no statement of the property pins that down
        if n < 2 * width:
            raise ValueError("boundary-zone reference is defined for disjoint zones (n >= 2*width) only")
        front_edge = _copy(out[cell(width - 1)])
        back_edge = _copy(out[cell(n - width)])
        for i in range(width):
            out[cell(i)] = front_edge * ramp_front[k][i]
            out[cell(n - 1 - i)] = back_edge * ramp_back[k][i]
    return out


# --------------------------------------------------------------------------------- filters
def filter_flux_1d(f, name):
    """-1/4 delta^2 along one axis on interior(1), zero ring"""
    out = f * 0
    out[_sl(3, 1)] = (1 / 4) * (2 * shifted(f, 3, 1) - shifted(f, 3, 1, **{name: 1}) - shifted(f, 3, 1, **{name: -1}))
    return out


def laplacian_filter_scalar(f0, order, ftype):
    if ftype == "multiplicative":
        g = f0
        if order == 0:
            # zero passes: the flux buffer holds whatever it held (documented as undefined); callers exclude order 0
            raise ValueError("order 0 has no reference")
        for _ in range(order):
            for name in ("dx", "dy", "dz"):
                g = filter_flux_1d(g, name)
        return f0 - g
    f = f0
    for name in ("dx", "dy", "dz"):
        g = f
        for _ in range(order):
            g = filter_flux_1d(g, name)
        f = f - g
    return f


# --------------------------------------------------------------------------------- char function
def char_func(phi, w, sin=np.sin, pi=np.pi):
    return np.where(phi > w, 1.0, 0.0) + np.where(abs(phi) > w, 0.0, 0.5 * (1 + phi / w + sin(pi * phi / w) / pi))
