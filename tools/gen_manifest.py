#!/usr/bin/env python3
"""Regenerates /verif/MANIFEST.json from the table below (kept next to the checks)."""
import json
import os

V = os.path.dirname(os.path.dirname(os.path.abspath(__file__)))

LEVEL_NOTE = ("exact real arithmetic (rounding excluded); bounded shapes/configurations as listed in the evidence; trusted: CPython/numpy shape logic on object arrays, "
              "pystencils lowering to C + C compiler + OpenMP runtime (sampled by the replay only), numba compilation of the @njit sources, z3; "
              "pystencils 2.0 keyword/4-D counter shim applied from outside the repo")

CHECKS = {
    "C20": dict(
        text="Bounded symbolic checking: the real time-step closures (SSP-RK3 / Euler stretching, Euler advection 2D/3D scalar+vector, Euler diffusion 2D/3D) are executed on symbolic "
             "grids by interpreting the pystencils backend IR; z3 shows for every cell that the result equals the polynomial in the library's own flux operator for all field values, "
             "velocities, step sizes and prior buffer contents on the enumerated small grids. A sat answer is replayed on the real compiled kernels before it is reported.",
        technique="symbolic execution of the real kernels (pystencils backend IR) + z3 equivalence query per cell; replay on compiled code",
        design="DESIGN.md section 5 C20"),
}

CHECKS["C13"] = dict(
    text="Bounded symbolic checking of every public generator of eulerian_grid_ops (except the five handled under C19/C01, listed in the evidence) in every option combination: the real "
         "callable runs on arrays of solver variables (contiguous, strided and reversed views; shapes from the minimal admissible size upward, non-cubic), z3 shows per cell that outputs equal the "
         "independent closed form, that cells outside the documented region and every input cell keep their prior value, and that parent cells outside a strided view are untouched.",
    technique="symbolic execution of the pystencils backend IR on an exact memory model + z3 per-cell equality/frame queries; replay on compiled kernels",
    design="DESIGN.md section 5 C13")
CHECKS["C15"] = dict(
    text="Size-symbolic QF_LIA queries over the lowered IR of every generated kernel: two distinct cells of the iteration box never touch an address one of them writes (grid sizes and cell "
         "indices are integer solver variables, so this part is unbounded in the sizes); call-site aliasing queries over the logged memory extents of every kernel call of the enumerated "
         "simulator/solver configurations (intra-kernel, and across the compiled kernels of one public wrapper call for memory passed under two argument names); serial marker loop of spreading as a syntactic side condition over every code variant the generator produces for marker counts 1..1100 and around 2^11..2^13.",
    technique="z3 QF_LIA over access sets extracted from the pystencils backend IR (sizes and cells symbolic) + alias queries per traced call site, at the level of the compiled kernels and of the public wrappers (memory passed under two argument names); replay: reversed cell order / de-aliased twin call / 1-thread vs all-thread spreading",
    design="DESIGN.md section 5 C15")

CHECKS["C12"] = dict(
    text="Bounded symbolic checking: the real curl/divergence/update/cross-product/2-D curl kernels are composed on grids of solver variables; z3 shows div(curl F)=0, that curl-type updates "
         "leave div(omega) unchanged, that the stream-function velocity is discretely divergence-free with in-plane curl equal to the wide five-point Laplacian, that the forcing update equals "
         "omega + p*(library curl) and the penalised update equals the forcing update of the difference, and that the divergence monitor equals dx^(3/2)*||div_h omega||_2. The forcing / penalised updates are also run on vorticity fields that are windows of padded buffers, transposed or strided.",
    technique="symbolic composition of the real kernels (backend IR) + z3 identity queries per interior cell",
    design="DESIGN.md section 5 C12")
CHECKS["C05"] = dict(
    text="Symbolic checking over polynomial inputs: every differential kernel is run on arrays holding a polynomial with symbolic coefficients sampled at x0+i*h (symbolic h, base point, "
         "prefactor); z3 (nlsat) shows the interior output equals the exact derivative expression with the documented sign/axis/prefactor convention, for all polynomials of degree <= 2 "
         "(ENO3: cubics when both faces upwind alike, quadratics across a velocity sign change). Result arrays of the flux / curl / divergence / stretching operators also as padded-interior and strided views.",
    technique="symbolic execution of the real kernels on polynomials with symbolic coefficients + z3 non-linear real arithmetic identity queries",
    design="DESIGN.md section 5 C05")
CHECKS["C04"] = dict(
    text="Symbolic checking: for every ENO3 face-kernel pair (classified from the IR) the increment given to a cell through a face plus the increment given to its neighbour through the same "
         "face is zero for all field/velocity values and all upwind sign patterns; telescoping sums of the forcing update, diffusion flux, Laplacian filters and the ENO3 advection step vanish "
         "for compactly supported data with arbitrary velocity; the real simulator time_step (2D/3D Navier-Stokes with forcing/filter/zone, passive transport) conserves the grid sum of every "
         "vorticity component / the transported field for compactly supported vorticity and forcing and arbitrary velocity.",
    technique="symbolic execution of the real flux/update kernels and of the real time_step + z3 queries (ite-encoded upwind switches; grid sums)",
    design="DESIGN.md section 5 C04")

CHECKS["C16"] = dict(
    text="Symbolic checking: compute_advection_diffusion_stable_timestep and the three simulators' compute_stable_timestep run on symbolic velocity fields (path forking on the real min()); "
         "z3 shows dt > 0, linearity in the prefactor, and both limits (advective per cell, diffusive) for all velocity values, nu >= 0, cfl, dx > 0 in both precisions; the real diffusion "
         "time-step kernel satisfies the discrete maximum principle for every p in [0, 1/(2d)] and leaves ring cells unchanged.",
    technique="symbolic execution of the real Python + kernels with path exploration + z3 (QF_NRA inequalities)",
    design="DESIGN.md section 5 C16")
CHECKS["C17"] = dict(
    text="Symbolic checking with an in-memory HDF5 stub: save/load of the real IO classes on arrays of solver variables restores every cell, time and grid, leaves sources untouched, and "
         "produces the documented on-disk layout for every marker count of the family (including N == dim); with presence of every registered key and the stored grid parameters symbolic, all "
         "paths of load() are explored and z3 shows that load returns only if every key is present and parameters agree within allclose, and raises only otherwise. Counterexamples are replayed "
         "through real HDF5 files.",
    technique="symbolic execution of the real IO code (h5py stubbed by its store/return contract) with path exploration over load() + z3; replay through real h5py",
    design="DESIGN.md section 5 C17",
    note="h5py replaced by an in-memory tree (faithful-store contract): bit fidelity of NaN/inf/denormals through the real library is outside the claim; exact real arithmetic; z3")

CHECKS["C11"] = dict(
    text="Bounded symbolic checking: solve()/vector_field_solve() of both fast-diagonalisation solvers run on a right-hand side of solver variables (prior solution and spectral buffer arbitrary); "
         "the result is an exact affine form; QF_LRA queries show for every cell that the residual of the independently written Neumann 5/7-point negative Laplacian and the mean of the solution "
         "stay below a stated tolerance for all right-hand sides in [-1,1]^n, that nothing depends on prior buffer contents and that vector components do not mix. Exceptions/dtype are decided on "
         "a numeric witness run of the real code.",
    technique="symbolic execution of the real solve() on affine forms (concrete LAPACK eigen-tables as exact rationals) + z3 QF_LRA tolerance query per cell",
    design="DESIGN.md section 5 C11")

CHECKS["C06"] = dict(
    text="Symbolic checking of the real support / weight / interpolation kernels (numba sources run as Python) on a marker whose offset inside its cell is a solver variable per axis (cases f=0, "
         "0<f<1, and the acknowledged float-floor slack): z3 shows non-negativity, zero weight at distance >= 2 cells, partition of unity, vanishing first moment (Peskin) and exact interpolation "
         "of constants and of the simulator's own coordinate field, in 2D and 3D for both kernels. Branches (abs, <, floor) are pruned by SMT queries; sqrt via s>=0, s^2=radicand with "
         "solver-proved radicand merging; cos via instantiated shift axioms.",
    technique="symbolic execution of the numba kernel sources with SMT-pruned branches + z3 (nlsat) identity/inequality queries; instantiated trig/sqrt axioms",
    design="DESIGN.md section 5 C06")

CHECKS["C07"] = dict(
    text="Symbolic checking of both transfer kernels (scalar/vector, 2D/3D): with ARBITRARY symbolic weights, fields and prior Eulerian content, sum_i F_i (I u)_i = dx^d sum_c (S F)_c u_c for "
         "enumerated marker index patterns (generic, shared cell, identical markers, overlapping windows, admissible edge), spreading accumulates (second call adds again) and touches only the "
         "marker windows; with the real Peskin/cosine weights of markers with symbolic offsets the grid integral of the spread force equals the total marker force and (Peskin) the torque about a "
         "symbolic reference point is preserved.",
    technique="symbolic execution of the numba transfer kernel sources + z3 (bilinear identities; nlsat with sqrt/cos axioms for the moment claims)",
    design="DESIGN.md section 5 C07")
CHECKS["C10"] = dict(
    text="Symbolic checking over histories: the real ImmersedBodyFlowInteraction/VirtualBoundaryForcing start from an arbitrary symbolic state and run every operation sequence up to the stated "
         "length over {evaluate, evaluate body forces, step(dt_i), move body, change flow}; after each operation the whole state (integral, mismatch, force, clock, Eulerian forcing, untouched "
         "inputs) equals the closed-form reference; length-1 sequences are the inductive step that extends the claim to histories of any length. Constructor paths (three spacing regimes) give the "
         "h^(d-1) coefficient scaling; two bodies sharing one field superpose in either order, or the resetting body overwrites.",
    technique="symbolic execution of the real classes from an arbitrary symbolic state over enumerated operation sequences (inductive step + bounded histories); identities decided by the canonical linear form / z3",
    design="DESIGN.md section 5 C10")

CHECKS["C08"] = dict(
    text="Symbolic checking on real PyElastica bodies and real forcing grids: node positions, directors (nine unconstrained entries per element, so every identity proved holds for every rotation), "
         "velocities, radii, masses and marker forces are solver variables. z3 shows net force = -sum of marker forces for every grid; couples handed to PyElastica = director matrix times the "
         "lab-frame torque of the element's markers; lab-frame moment balance about a symbolic point; rigid bodies: power of the transferred wrench = -marker power; FlowForces adds into the "
         "external forces; fluid force integral + body force = 0 for one spread + transfer on a symbolic flow (tolerance 1e-9).",
    technique="symbolic execution of the real grids + PyElastica helper kernels (from source, allocator proxy) on symbolic poses + z3 polynomial identity queries",
    design="DESIGN.md section 5 C08")
CHECKS["C09"] = dict(
    text="Symbolic checking of compute_lag_grid_position_field / compute_lag_grid_velocity_field of every grid on symbolic poses: marker velocity = element (mass-weighted) or body velocity + "
         "lab-frame angular velocity x offset (free director entries); surface/edge markers at radius x cap ratio from the element centre (unit-quaternion directors; nlsat); centre markers on the "
         "centre; nodal grid = node data; body-fixed grids follow a first-order pose advance; sphere markers translate with the centre.",
    technique="symbolic execution of the real grids on symbolic poses (free or quaternion-parametrised directors) + z3 (nlsat) identity queries",
    design="DESIGN.md section 5 C09")

CHECKS["C03"] = dict(
    text="Bounded symbolic checking: the real solver objects are built concretely (Fourier Green's table = what real FFTW produced), then solve()/vector_field_solve() run on a right-hand side "
         "of solver variables with all three work buffers and the solution array arbitrary; the FFTW plans are replaced by an exact-DFT stub (validated against real pyfftw on every shape). "
         "QF_LRA queries bound, per output cell and for all right-hand sides in [-1,1]^n, the distance to the analytic aperiodic convolution with the free-space Green's function (self-cell "
         "regularisation, dx^d factor, no periodic images); two-copy queries show independence of buffer history; the vector solve equals scalar solves.",
    technique="symbolic execution of the real solve() on affine forms with an exact-DFT stub for FFTW + z3 QF_LRA tolerance query per cell; two-copy history-independence queries",
    design="DESIGN.md section 5 C03",
    note="pyfftw plans replaced by their mathematical contract (validated numerically each run); Green's table entries read as exact rationals; 40-digit twiddles; exact reals; z3")

CHECKS["C01"] = dict(
    text="Bounded symbolic checking of the real simulators: for each configuration the state, dt, viscosity, density, free stream, clock and every scratch buffer are solver variables and "
         "time_step() runs symbolically (kernels from the pystencils backend IR, FFTW = exact-DFT stub). Stage by stage against an independent reference: vorticity before boundary damping "
         "equals forcing -> transport -> diffusion (-> filter) exactly (z3 non-linear queries incl. the ENO3 upwind switches); boundary damping and the Poisson stage (Green's convolution or "
         "discrete Neumann problem) within stated tolerances for all inputs in a box (QF_LRA, cut points); velocity = curl of the stream function + free stream exactly; clock advances by dt; "
         "forcing field zero on return; time_step returns normally for every configuration.",
    technique="symbolic execution of the real time_step with cut points (generalisation to fresh variables) + z3 NRA equivalence queries per cell and QF_LRA tolerance queries; replay on the compiled build",
    design="DESIGN.md section 5 C01",
    note="exact real arithmetic; cut points at the inputs of boundary damping and of the curl; FFTW replaced by its DFT contract; LAPACK/FFTW-made tables are data; configurations and grids as listed in the evidence; z3")

CHECKS["C19"] = dict(
    text="Symbolic checking of the real stabilising operators: Brinkmann kernels (Eulerian scalar/vector, fixed-value, Lagrangian) return a value between field and target with the distance "
         "to the target contracted by 1/(1+penalty*indicator) and leave the field where the indicator is 0; the sine Heaviside is 0/1 beyond the blend width, within [0,1], non-decreasing, "
         "satisfies H(phi)+H(-phi)=1 and equals its documented closed form (sin as one real variable per application with instantiated bound/reflection/Lipschitz/parity axioms); boundary-zone "
         "damping leaves cells outside the zone untouched, zeroes the outer ring up to rounding and bounds every zone value by the largest inner-edge magnitude (widths 0..6); Laplacian filters "
         "are independent of prior buffer contents, keep constants, annihilate the checkerboard and multiply every Fourier mode (three-term recurrence with symbolic cos(theta_a)) by the "
         "documented symbol, which lies in [0,1].",
    technique="symbolic execution of the real kernels/wrappers + z3 (nlsat) inequality and identity queries; instantiated axioms for sin; Fourier modes via symbolic three-term recurrences",
    design="DESIGN.md section 5 C19")

CHECKS["C14"] = dict(
    text="Bounded symbolic checking of equivariance: two symbolic runs of the real simulators, one on a state and one on its relabelled copy (axis permutations with pseudo-vector sign, axis "
         "mirrors) on the relabelled non-cubic grid, built from the same solver variables. Transport part (forcing, transport, diffusion, filter, damping; compactly supported vorticity/forcing, "
         "arbitrary velocity, ENO ties excluded): step(g.S) = g.step(S) exactly per cell (z3). Velocity part (Poisson solve, curl, free stream): equality within a stated tolerance for all "
         "vorticities in a box (each simulator carries its own floating-point tables).",
    technique="two symbolic executions of the real time_step on a state and its relabelled copy + z3 per-cell equivalence queries (NRA with ite) and QF_LRA tolerance queries",
    design="DESIGN.md section 5 C14")

CHECKS["C18"] = dict(
    text="Decomposed bounded checking. (1) No hidden state: two symbolic copies of one coupled step (body-force evaluation, forcing step, interaction, flow step; 2D and 3D) share the public state "
         "but hold different arbitrary contents in every scratch array, solver work buffer, filter buffer and interactor work array; z3 / the canonical form show the public post-states coincide "
         "(with cut points shared between the copies). With C17 (save/load identity), C01 (forcing field zero at step boundaries) and deterministic construction (concrete comparison) this "
         "gives continuity for every checkpoint index by induction over steps. (5) The real restart_simulation runs under CrossHair (symbolic execution + z3) with the directory listing and "
         "loaders stubbed: largest index chosen, exactly its three files loaded, flow time returned, FileNotFoundError iff no checkpoint, ValueError iff times differ; reachability twin refuted.",
    technique="two-copy non-interference queries over the symbolic execution of the real coupled step (z3) + CrossHair symbolic execution of the restart helper",
    design="DESIGN.md section 5 C18",
    note="relative to: PyElastica save_state/load_state and its time stepper (upstream, excluded), HDF5 fidelity (C17 stub contract); forcing grid stubbed with concrete marker positions; CrossHair 0.0.110 "
         "'Confirmed over all paths' for <= 2 files / indices in the stated windows; exact reals; z3")

NOT_APPLICABLE = {
    "C02": "convergence of whole simulations over resolution families: thousands of time steps of floating-point code on 32^2..128^2 grids; no bound on steps/sizes under which a solver query is still the property (DESIGN.md section 5 C02). Its solver-decidable ingredients are claimed under C01, C03, C05, C16.",
}

PENDING_REASON = "not claimed"


def main():
    props = [json.loads(l)["id"] for l in open(os.path.join(V, "properties.jsonl"))]
    checks = []
    for pid in props:
        c = CHECKS.get(pid)
        if not c:
            continue
        checks.append({
            "property_id": pid,
            "quick_cmd": f"./check {pid} --tier quick",
            "thorough_cmd": f"./check {pid} --tier thorough",
            "evidence_file": f"evidence/{pid}.json",
            "replay_cmd_template": f"./check {pid} --replay {{path}}",
            "engine": "symsopht",
            "level_claimed": {"category": "model_checking", "text": c["text"], "design_ref": c["design"]},
            "level_note": c.get("note", LEVEL_NOTE),
            "technique": c["technique"],
        })
    na = []
    for pid in props:
        if pid in CHECKS:
            continue
        na.append({"property_id": pid, "reason": NOT_APPLICABLE.get(pid, PENDING_REASON)})
    m = {
        "version": 1,
        "setup_cmd": "./setup.sh",
        "hooks": {
            "guard": "SOPHT_VERIF",
            "enable": "no source hooks: the checks import /repo's modules unmodified and shim pystencils from outside (symsopht/load.py); the guard variable is unused",
            "baseline_off_cmd": "cd /repo && /venv/bin/python -m pytest -ra -q -p no:cacheprovider --timeout=900 --continue-on-collection-errors",
            "source_commits": [],
            "add_only": True,
        },
        "engines": [{
            "name": "symsopht",
            "path": "symsopht/",
            "serves_properties": sorted(CHECKS),
            "kind_free_text": "symbolic execution of the real Python/numba sources and of the pystencils backend IR on solver terms (exact reals); z3 decides every obligation; "
                              "sat models are replayed on the real compiled build before a VIOLATION is printed",
        }],
        "checks": checks,
        "not_applicable": na,
        "notes": "Exit codes of every check: 0 = all obligations unsat (hold within bounds), 1 = reproduced violation, 2 = inconclusive/harness error. See DESIGN.md.",
    }
    json.dump(m, open(os.path.join(V, "MANIFEST.json"), "w"), indent=1)
    print("MANIFEST.json:", len(checks), "checks,", len(na), "not claimed")


if __name__ == "__main__":
    main()
