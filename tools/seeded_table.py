#!/usr/bin/env python3
"""prints the markdown tables of DESIGN.md section 12 from seeded/<id>/meta.json"""
import json, os, sys
V = os.path.dirname(os.path.dirname(os.path.abspath(__file__)))
rnd = int(sys.argv[1]) if len(sys.argv) > 1 else 2
ids = sorted(d for d in os.listdir(os.path.join(V, "seeded")) if os.path.exists(os.path.join(V, "seeded", d, "meta.json")))
if rnd >= 2:
    print("| id | aimed at | change | needs to manifest | first run of the target check | strengthening | caught by now (exit 1, reproduced; `git apply` in /repo) |")
    print("|---|---|---|---|---|---|---|")
    for i in ids:
        m = json.load(open(os.path.join(V, "seeded", i, "meta.json")))
        if m.get("round") != rnd:
            continue
        conf = m.get("confirmed_with_git_apply_in_repo", {})
        caught = ", ".join(k for k, v in sorted(conf.items()) if v == 1) or "—"
        print(f"| {i} | {m['property_broken']} | {m['change']} | {m['needs_to_manifest']} | {m['first_run_of_target_check']} | {m['strengthening']} | {caught} |")
