#!/usr/bin/env python3
"""merges the hand-written description of every independently seeded change into seeded/<id>/meta.json"""
import json, os
V = os.path.dirname(os.path.dirname(os.path.abspath(__file__)))
INFO = {
 "C01": dict(breaks="C01", change="gen_diffusion_timestep_euler_forward_pyst_kernel_3d builds its flux kernel with reset_ghost_zone=False, so the outer layer of the (shared) flux buffer is added to the field",
             needs="3-D Navier-Stokes step with velocity and vorticity non-zero on the outermost layer and zone width 0 or a filter order >= width-1 (the stale buffer content is (u x omega)_x)"),
 "C03": dict(breaks="C03", change="UnboundedPoissonSolverPYFFTW3D.solve clears only the zero padding in three slabs; the third slab starts at grid_size_y instead of grid_size_x",
             needs="3-D solver, grid_size_y > grid_size_x, and an earlier solve with non-zero rhs on the same object (history)"),
 "C04": dict(breaks="C04", change="y-back ENO3 face kernel (2D) switches on >= instead of >", needs="two y-adjacent cells with exactly opposite (or both zero) y-velocity: an exact upwind tie"),
 "C06": dict(breaks="C06", change="3-D Peskin weights: inner-branch mask of the x factor r < 1.0 -> r <= 1.0 (both branches fire at r == 1)", needs="marker x coordinate exactly on a cell centre (power-of-two grids), Peskin kernel, 3-D"),
 "C07": dict(breaks="C07", change="2-D Peskin weights: outer-branch mask of the x factor r >= 1.0 -> r > 1.0 (weight 0 at r == 1)", needs="marker x coordinate exactly on a cell centre, Peskin kernel, 2-D: half of the marker force is lost in spreading"),
 "C08": dict(breaks="C08", change="TwoDimensionalCylinderForcingGrid.transfer_forcing_from_grid_to_body drops the director factor Q[2,2] from the couple", needs="2-D cylinder whose axis points along -Z (director[2,2] = -1) and marker forces with a net moment"),
 "C10": dict(breaks="C10", change="lag_grid_flow_velocity_field / lag_grid_velocity_mismatch_field come from a module-level pool keyed by (name, shape, dtype)", needs="two forcing objects with identical dim, marker count and precision; evaluation of the other body between a body's evaluation and its time_step"),
 "C11": dict(breaks="C11", change="FastDiagPoissonSolver3D memoises the 1-D spectral decomposition in a class-level cache keyed by (size, dtype, bc) - dx is missing from the key", needs="a second solver object with a shared axis length and a different dx built in the same process"),
 "C13": dict(breaks="C13", change="gen_laplacian_filter_kernel_3d zeroes the boundary zone of the caller-owned flux buffer once at generator time instead of at every call", needs="non-zero content in the boundary ring of filter_flux_buffer at call time (buffer shared with another full-array kernel)"),
 "C14": dict(breaks="C14", change="UnboundedPoissonSolverPYFFTW3D: z_range = x_range * grid_size_z / grid_size_y (instead of / grid_size_x)", needs="3-D Green's-function solver on a grid with grid_size_y != grid_size_x"),
 "C05": dict(breaks="C05", change="3-D ENO3 y-front face kernel rewritten as a flux-splitting sum that contributes nothing at an exact tie", needs="velocity_y[j] == -velocity_y[j+1] exactly (stagnation plane on a cell face) and curved nodal flux"),
 "C09": dict(breaks="C09", change="CosseratRodSurfaceForcingGrid computes grid_point_radius once in __init__ instead of at every position update", needs="rod radius changed after the grid was built (axial stretch) and positions recomputed"),
 "C12": dict(breaks="C12", change="update_vorticity_from_velocity_forcing_pyst_kernel_3d skips the sweep of component i when forcing component i is identically zero", needs="a forcing component exactly identically zero while another is not (planar forcing, quasi-2D flow)"),
 "C15": dict(breaks="C15", change="2-D boundary-zone fill done by four in-place OpenMP kernels field[0,0] = field[inward neighbour] (output aliased with a neighbour-read input)", needs="penalty zone width >= 3 (default 2 is bit-identical)"),
 "C16": dict(breaks="C16", change="compute_advection_diffusion_stable_timestep takes the velocity maximum over the interior cells only", needs="the largest velocity sits on the outermost ring of the grid and the advective limit binds"),
 "C17": dict(breaks="C17", change="IO._save passes dtype=self.real_dtype to the three Lagrangian create_dataset calls", needs="IO declared float32 with float64 registered Lagrangian arrays (CosseratRodIO(real_dtype=float32))"),
 "C18": dict(breaks="C18", change="UnboundedPoissonSolverPYFFTW2D.solve clears only the padding with slices [ny:, :] and [:nx, nx:] (x/y extents mixed up)", needs="2-D grid taller than wide and a solver object that has solved before (uninterrupted run) vs a fresh one (resumed run)"),
 "C19": dict(breaks="C19", change="3-D boundary damping computes the far-face coordinates from grid size * dx with the x and z extents swapped", needs="3-D grid with nx != nz and width >= 1"),
 "C20": dict(breaks="C20", change="(see notes.md)", needs="(see notes.md)"),
 # ---- round 4 (eight properties, told all three earlier changes) ----
 "C01d": dict(rnd=4, breaks="C01", first="caught", change="2-D unbounded Poisson solver clears only the padding of its doubled buffer before each solve, with grid_size_x used for the row slice (one-off full clear in __init__)",
              needs="grid wider than tall and the second solve on the same object", strengthening="none needed (all solver buffers are symbolic: arbitrary earlier history)"),
 "C04d": dict(rnd=4, breaks="C04", first="inconclusive (mean over three axes of a symbolic array unsupported)", change="3-D step subtracts the per-component mean from the vorticity before the fast-diagonalisation solve", needs="poisson_solver_type='fast_diagonalisation' and a vorticity component with non-zero sum",
              strengthening="multi-axis reductions (sum/mean with an axis tuple, keepdims) on symbolic arrays"),
 "C08d": dict(rnd=4, breaks="C08", first="missed before the strengthening", change="ImmersedBodyFlowInteraction wraps the Eulerian forcing field in np.require(..., ['C','W']): a non-contiguous field is silently copied and the spread force never reaches the caller's field",
              needs="non-C-contiguous Eulerian forcing field", strengthening="fluid+body force balance with the forcing field as the interior of a padded allocation / component-last storage"),
 "C10d": dict(rnd=4, breaks="C10", first="missed before the strengthening", change="ImmersedBodyFlowInteraction wraps the Eulerian forcing field in np.ascontiguousarray: a non-contiguous field is silently copied", needs="non-C-contiguous Eulerian forcing field",
              strengthening="operation histories with the caller's forcing field laid out as padded interior / Fortran order"),
 "C13d": dict(rnd=4, breaks="C13", first="C13 delegates the characteristic function to C19, which catches it", change="3-D characteristic function: blend guard |phi| >= blend width (H(+blend width) = 0)", needs="level set exactly +blend width, 3-D",
              strengthening="none needed (same clause as C19c; C13 lists the generator as decided in C19)"),
 "C15d": dict(rnd=4, breaks="C15", first="missed before the strengthening", change="2-D Poisson solver: with num_threads <= 1 the convolution buffer is the Fourier buffer itself and the product is done by numpy in place; with more threads by the generated kernel (different rounding: FMA)",
              needs="comparison of a 1-thread with a multi-thread run", strengthening="structural scenario: aliasing structure of the simulator's arrays and the sequence of compiled kernels of one step must not depend on the thread count"),
 "C17d": dict(rnd=4, breaks="C17", first="inconclusive (boundary-hugging model did not replay)", change="IO.load no longer compares the stored grid size (relies on the assignment failing - but it broadcasts)", needs="file whose grid differs only on axes of extent 1 (or any stored grid_size attribute that differs while the data shapes agree)", strengthening="first run inconclusive: the solver's model put the stored spacing exactly on the allclose boundary and the real load rejected it in floating point; the claim now carries robust counterexample goals (exactly one stored parameter clearly off, the others exact)"),
 "C19d": dict(rnd=4, breaks="C19", first="missed before the strengthening", change="Lagrangian Brinkmann kernel accumulates in the output buffer (out = a*body; out += flow; out /= 1+a)", needs="in-place call with the flow-velocity buffer as output",
              strengthening="in-place Brinkmann calls (output = field buffer / = target buffer) for the Lagrangian and the pystencils variants"),
 # ---- round 3 (agents were told both earlier changes; asked for something that is not another incomplete-key cache) ----
 "C01c": dict(rnd=3, breaks="C01", first="caught", change="2-D ENO3 y-back face kernel: branches swapped and the condition negated with < instead of <= (differs from the y-front kernel exactly at a tie)",
              needs="two vertically adjacent cells with exactly opposite non-zero y-velocity", strengthening="none needed (the upwind switch is an ite term inside the query)"),
 "C03c": dict(rnd=3, breaks="C03", first="caught", change="3-D vector_field_solve loops over components and skips a component whose right-hand side is identically zero (solution keeps stale data)",
              needs="a zero rhs component and a non-zero prior solution array", strengthening="none needed (prior solution symbolic, data-dependent branch forked)"),
 "C04c": dict(rnd=3, breaks="C04", first="caught", change="3-D simulator passes buffer_scalar_field and buffer_vector_field[0] (the same memory) as the two filter buffers", needs="filter_vorticity=True and a vorticity component with non-zero sum",
              strengthening="none needed"),
 "C05c": dict(rnd=3, breaks="C05", first="caught", change="3-D forcing update returns early when np.allclose(forcing, 0)", needs="all forcing entries below 1e-8 in magnitude but not zero", strengthening="none needed (allclose is a symbolic branch)"),
 "C06c": dict(rnd=3, breaks="C06", first="missed", change="2-D support kernel: a loop variant (with the y row read from the x coordinate) is returned for more than 500 markers", needs=">= 501 markers, 2-D",
              strengthening="size-variant scan: the generators are called for every marker count 1..1100 and around 2^11..2^13; every distinct code variant of the returned kernel is decided (first and last marker symbolic)"),
 "C07c": dict(rnd=3, breaks="C07", first="missed", change="3-D vector spreading skips markers whose window would leave the grid, with the x extent used as the bound for all three axes", needs="non-cubic grid whose x axis is the shortest and a marker far along y or z",
              strengthening="corner markers on grids with every axis in turn the shortest"),
 "C08c": dict(rnd=3, breaks="C08", first="caught", change="surface grid transfer skips elements whose marker forces sum to exactly zero (a pure couple is dropped)", needs="an element loaded by a pure couple", strengthening="none needed"),
 "C09c": dict(rnd=3, breaks="C09", first="missed", change="edge grid transfer negates self.moment_arm in place and does not restore it", needs="velocity refresh after a force transfer without a position update",
              strengthening="call history in C09 (position, velocity, transfer, velocity) for every grid class; frame condition in C08 (the transfer leaves the grid's kinematic state, the marker forces and the body state untouched)"),
 "C10c": dict(rnd=3, breaks="C10", first="missed - an interpreter fault", change="Euler-forward kernel scales the stored velocity mismatch by dt in place (vel *= dt; pos += vel)", needs="two time_steps without an evaluation in between",
              strengthening="FAULT IN OUR INTERPRETER: `array *= symbolic_scalar` was silently executed out of place (numpy defers in-place operators to the operand with the higher __array_priority__); SymArray now outranks Sym. All checks re-run."),
 "C11c": dict(rnd=3, breaks="C11", first="missed", change="2-D solver treats every eigenvalue below sqrt(eps)*max as the null space", needs="float32 and a grid side of 60-64 cells", strengthening="sizes up to 64 with the rhs supported on a few cells; float32 tolerance tightened from 2e-2 to 2e-4 (measured worst case 8e-7)"),
 "C12c": dict(rnd=3, breaks="C12", first="missed", change="3-D curl wrapper sweeps z slabs of 32 planes with an off-by-one slab end: planes 32, 64, ... are never written", needs="at least 34 planes along z",
              strengthening="long thin grids (one axis 70 / 130 cells, the others minimal) in C12 and for every generator in C13"),
 "C13c": dict(rnd=3, breaks="C13", first="caught", change="3-D vector add-fixed-value wrapper skips components whose fixed value is 0", needs="out-of-place call with a zero entry in fixed_vals", strengthening="none needed"),
 "C14c": dict(rnd=3, breaks="C14", first="inconclusive (truth value of a symbolic real)", change="3-D free-stream update returns early when np.amax(free_stream) is 0 (largest signed component)", needs="a free stream with no positive component, e.g. the mirror image (-U,0,0)",
              strengthening="`if x:` / `not x` on a symbolic real is the branch x != 0"),
 "C15c": dict(rnd=3, breaks="C15", first="missed", change="3-D simulator with the fast-diagonalisation solver makes the stream function a view of the velocity field; _curl(curl=velocity, field=stream function) is then in place", needs="poisson_solver_type='fast_diagonalisation'",
              strengthening="wrapper-level alias queries: within one call of a public kernel, memory passed under two argument names must not be written by one compiled kernel and read by a later one; replay = the real step with every such call also run on de-aliased copies"),
 "C16c": dict(rnd=3, breaks="C16", first="inconclusive", change="early-out for a quiescent flow divides by the raw viscosity", needs="zero velocity and zero viscosity",
              strengthening="finiteness claim (no vanishing denominator on the path); an arithmetic error raised inside SophT during replay counts as reproduction of a claim about the returned value; undecided path feasibility is explored instead of aborting; wall budget per tier"),
 "C17c": dict(rnd=3, breaks="C17", first="caught", change="IO.lagrangian_fields became a class attribute shared by all IO objects", needs="a second IO object registering the same field name before the first one saves", strengthening="none needed (later-object instances added in round 2)"),
 "C18c": dict(rnd=3, breaks="C18", first="inconclusive (CrossHair cannot follow np.isclose)", change="restart helper compares flow and body time with np.isclose", needs="times that differ by less than 1e-5 relative",
              strengthening="restart helper also executed by our own engine with real-valued times as solver variables; numpy functions applied to symbolic scalars dispatch to the symbolic table (np.isclose added)"),
 "C19c": dict(rnd=3, breaks="C19", first="caught", change="3-D characteristic function: the blend term uses |phi| >= blend width, so H(+blend width) = 0", needs="level set exactly equal to +blend width, 3-D", strengthening="none needed (boundary cases are enumerated)"),
 "C20c": dict(rnd=3, breaks="C20", first="missed", change="stretching time-step kernels run the 3-D scalar elementwise kernel on arg.reshape(-1, ny, nx): for non-mergeable layouts the reshape is a copy and the update is lost", needs="vorticity field that is not C-contiguous (padded window, component-last storage)",
              strengthening="layouts of the updated field in C20; views 'interior' and 'rolled' for every generator in C13"),
 # ---- round 2 (agents were told the round-1 change and asked for one of a different nature and place) ----
 "C01b": dict(breaks="C01", first="missed", change="UnboundedPoissonSolverPYFFTW3D caches the Fourier Green's function at class level, keyed by (grid sizes, dtype) - x_range is missing from the key",
              needs="a second 3-D simulator / solver in the same process with the same grid and precision but another x_range", strengthening="later-object instances (`_earlier`): a simulator with another x_range is built and stepped first in the same process"),
 "C03b": dict(breaks="C03", first="missed", change="UnboundedPoissonSolverPYFFTW2D caches the Fourier Green's function in a module-level dict keyed by (grid sizes, dtype) - x_range missing",
              needs="two 2-D solver objects in one process, same shape and precision, different x_range, rhs with non-zero sum", strengthening="later-object instances in C03 (other x_range / transposed shape / other precision first)"),
 "C04b": dict(breaks="C04", first="caught", change="3-D ENO3 step: first face kernel assigns instead of accumulating and the full-buffer clear is replaced by a width-1 boundary clear; the second ring of the flux buffer keeps stale data",
              needs="non-zero data in the second ring of the scratch buffer when the step starts (e.g. compute_stable_timestep() before time_step())", strengthening="none needed (all scratch buffers are symbolic)"),
 "C05b": dict(breaks="C05", first="missed by C05 (caught by C01, C04, C19)", change="convolution filter: repeated 1-D filter applications run in place on the flux buffer (input aliased with output)",
              needs="filter_type='convolution' with filter_order >= 2", strengthening="C05 now also runs the composed filter callables (both types, orders 1-3, scalar/vector) on quadratics; generic second counterexample because the sparse first model sat where compiler vectorisation hides the aliasing"),
 "C06b": dict(breaks="C06", first="missed", change="EulerianLagrangianGridCommunicator3D.__init__ reuses compiled weight kernels from a module-level dict keyed by (dx, width, real_t) - interp_kernel_type missing",
              needs="a Peskin communicator built after a cosine one with the same dx/width/precision in one process (through the class, not the bare generators)", strengthening="C06 obtains its kernels from the communicator class; later-object instances (other delta function first); numeric witness search for models of queries with abstracted cos/sqrt"),
 "C07b": dict(breaks="C07", first="missed", change="2-D interpolation/spreading kernels memoised in a module-level registry keyed by (tag, num_lag_nodes, width, n_components) - dx (cell volume factor) missing for interpolation",
              needs="a second 2-D communicator with the same marker and component count but another dx in one process", strengthening="later-object instances in C07 (other dx / component count / marker count first; through generators and class)"),
 "C08b": dict(breaks="C08", first="inconclusive (harness refused an unknown array)", change="ThreeDimensionalRigidBodyForcingGrid caches a view of director_collection[:, :, 0] at construction and rotates the lab-frame moment with it",
              needs="the body's director_collection attribute re-bound after the grid was built (PyElastica finalize()) and the body rotated", strengthening="unknown arrays are kept at their constructed content instead of aborting; the replay re-binds the body state arrays exactly as the symbolic run does"),
 "C09b": dict(breaks="C09", first="caught", change="TwoDimensionalCylinderForcingGrid drops the director factor Q[2,2] from the lab-frame angular velocity", needs="2-D cylinder with axis along -Z and non-zero omega", strengthening="none needed"),
 "C10b": dict(breaks="C10", first="missed (quick; thorough histories of length 4 reach it)", change="compute_flow_forces_and_torques skips the Lagrangian re-evaluation when an evaluation was stamped at the same forcing time",
              needs="evaluate, change flow/body without time_step, then compute_flow_forces_and_torques", strengthening="quick tier now enumerates all histories of length 3 (thorough: 5)"),
 "C11b": dict(breaks="C11", first="missed", change="FastDiagPoissonSolver3D back-transform written with np.matmul(out=solution_field.reshape(nz,-1)): for a non-contiguous output the reshape is a copy and the caller's array keeps stale data",
              needs="output array that cannot be flattened without a copy (interior of a padded array, Fortran order, strided view)", strengthening="layout variants of the caller's arrays in C11 and C03"),
 "C12b": dict(breaks="C12", first="missed", change="2-D forcing-update wrapper caches the component slices of the forcing keyed on id(velocity_forcing_field)",
              needs="two consecutive calls of one kernel object with temporary wrappers of different buffers (CPython reuses the id of the dead wrapper)", strengthening="call-history scenario with forced identity reuse (view_with_identity_of)"),
 "C14b": dict(breaks="C14", first="missed by C14 quick (caught by C05 after its strengthening and by C19; C14 thorough has the convolution filter)", change="convolution filter: the copy that reloads the work buffer before the z pass is deleted",
              needs="filter_vorticity=True with filter type 'convolution' and an axis permutation", strengthening="convolution-filter instance in C14 quick; this also exposed that the quick 3-D Navier-Stokes instance of C14 was vacuous (8-cell axis with margin 4): grids enlarged and a vacuity guard added"),
 "C15b": dict(breaks="C15", first="inconclusive (syntactic predicate refuted, no replay)", change="3-D scalar spreading compiled with parallel=True and prange (through an alias) when num_lag_nodes >= 512",
              needs=">= 512 markers, scalar field, more than one numba thread, overlapping supports", strengthening="replay of (c) is a race demonstration on the compiled kernels (1 thread vs all threads, 3..4096 overlapping markers); the predicate now requires every loop to iterate over the builtin range"),
 "C16b": dict(breaks="C16", first="inconclusive (refuted across two exploration paths sharing one simulator, not reproducible)", change="3-D Navier-Stokes compute_stable_timestep caches the un-prefactored dt per simulator time",
              needs="second query after the velocity (or cfl / viscosity) changed without a time step", strengthening="query history in the wiring scenario (velocity, then viscosity/CFL changed between queries); every exploration path starts from a freshly built simulator"),
 "C17b": dict(breaks="C17", first="caught", change="IO.load guards the Lagrangian branch with `if self.lagrangian_fields` instead of `if self.lagrangian_grids`", needs="Lagrangian grids registered without any Lagrangian field", strengthening="none needed"),
 "C18b": dict(breaks="C18", first="caught", change="restart_simulation picks the latest checkpoint by file-name order instead of numeric index", needs="checkpoint indices with different digit counts (>= 10000)", strengthening="none needed (CrossHair finds the digit-count counterexample)"),
 "C19b": dict(breaks="C19", first="caught", change="Laplacian filter zeroes the flux buffer's boundary ring once at generator time instead of at every call", needs="flux buffer ring dirtied after generation", strengthening="none needed (buffers dirty at call time since round 1)"),
 "C20b": dict(breaks="C20", first="inconclusive (math.ceil of a symbolic real aborted the harness)", change="2-D Euler-forward diffusion step silently sub-cycles when nu*dt/dx^2 > 0.25", needs="nu_dt_by_dx2 > 0.25",
              strengthening="math.floor/ceil/trunc of symbolic reals fork per integer value (small values first); exploration is bounded instead of aborting"),
}
for sid, info in INFO.items():
    d = os.path.join(V, "seeded", sid)
    p = os.path.join(d, "meta.json")
    if not os.path.isdir(d) or not os.path.exists(p):
        continue
    m = json.load(open(p))
    m.update({"property_broken": info["breaks"], "change": info["change"], "needs_to_manifest": info["needs"], "author": "independent sub-agent given only the property text and a scratch worktree"})
    if "first" in info:
        m["round"] = info.get("rnd", 2)
        m["first_run_of_target_check"] = info["first"]
        m["strengthening"] = info["strengthening"]
    cr = m.get("checks_run", {})
    m["caught_by"] = sorted(k for k, v in cr.items() if v == 1)
    m["not_caught_by"] = sorted(k for k, v in cr.items() if v == 0)
    m["inconclusive_in"] = sorted(k for k, v in cr.items() if v not in (0, 1))
    json.dump(m, open(p, "w"), indent=1)
    print(sid, "caught by", m["caught_by"], "| quiet:", m["not_caught_by"], "| inconclusive:", m["inconclusive_in"])
