#!/usr/bin/env python3
"""merges the hand-written description of every independently seeded change into seeded/<id>/meta.json"""
import json, os
V = os.path.dirname(os.path.dirname(os.path.abspath(__file__)))
INFO = {
 "C01": dict(breaks="C01", change="gen_diffusion_timestep_euler_forward_pyst_kernel_3d builds its flux kernel with reset_ghost_zone=False, so the outer layer of the (shared) flux buffer is added to the field",
             needs="3-D Navier-Stokes step with velocity and vorticity non-zero on the outermost layer and zone width 0 or a filter order >= width-1 (the stale buffer content is (u x omega)_x)"),
 "C03": dict(breaks="C03", change="UnboundedPoissonSolverPYFFTW3D.solve clears only the zero padding in three slabs; the third slab starts at grid_size_y instead of grid_size_x",
             needs="3-D solver, grid_size_y > grid_size_x, and an earlier solve with non-zero rhs on the same object (history)"),
 "C04": dict(breaks="C04", change="y-back ENO3 face kernel (2D) switches on >= instead of >", needs="two y-adjacent cells with exactly opposite (or both zero) y-velocity: an exact upwind tie"),
 "C06": dict(breaks="C06", change="3-D Peskin weights: inner-branch mask of the x factor r < 1.0 -> r <= 1.0 (both branches fire at r == 1)", needs="marker x coordinate exactly on a cell centre (power-of-two grids), Peskin kernel, 3-D"),
 "C07": dict(breaks="C07", change="2-D Peskin weights: outer-branch mask of the x factor r >= 1.0 -> r > 1.0 (weight 0 at r == 1)", needs="marker x coordinate exactly on a cell centre, Peskin kernel, 2-D: half of the marker force is lost in spreading"),
 "C08": dict(breaks="C08", change="TwoDimensionalCylinderForcingGrid.transfer_forcing_from_grid_to_body drops the director factor Q[2,2] from the couple", needs="2-D cylinder whose axis points along -Z (director[2,2] = -1) and marker forces with a net moment"),
 "C10": dict(breaks="C10", change="lag_grid_flow_velocity_field / lag_grid_velocity_mismatch_field come from a module-level pool keyed by (name, shape, dtype)", needs="two forcing objects with identical dim, marker count and precision; evaluation of the other body between a body's evaluation and its time_step"),
 "C11": dict(breaks="C11", change="FastDiagPoissonSolver3D memoises the 1-D spectral decomposition in a class-level cache keyed by (size, dtype, bc) - dx is missing from the key", needs="a second solver object with a shared axis length and a different dx built in the same process"),
 "C13": dict(breaks="C13", change="gen_laplacian_filter_kernel_3d zeroes the boundary zone of the caller-owned flux buffer once at generator time instead of at every call", needs="non-zero content in the boundary ring of filter_flux_buffer at call time (buffer shared with another full-array kernel)"),
 "C14": dict(breaks="C14", change="UnboundedPoissonSolverPYFFTW3D: z_range = x_range * grid_size_z / grid_size_y (instead of / grid_size_x)", needs="3-D Green's-function solver on a grid with grid_size_y != grid_size_x"),
 "C05": dict(breaks="C05", change="3-D ENO3 y-front face kernel rewritten as a flux-splitting sum that contributes nothing at an exact tie", needs="velocity_y[j] == -velocity_y[j+1] exactly (stagnation plane on a cell face) and curved nodal flux"),
 "C09": dict(breaks="C09", change="CosseratRodSurfaceForcingGrid computes grid_point_radius once in __init__ instead of at every position update", needs="rod radius changed after the grid was built (axial stretch) and positions recomputed"),
 "C12": dict(breaks="C12", change="update_vorticity_from_velocity_forcing_pyst_kernel_3d skips the sweep of component i when forcing component i is identically zero", needs="a forcing component exactly identically zero while another is not (planar forcing, quasi-2D flow)"),
 "C15": dict(breaks="C15", change="2-D boundary-zone fill done by four in-place OpenMP kernels field[0,0] = field[inward neighbour] (output aliased with a neighbour-read input)", needs="penalty zone width >= 3 (default 2 is bit-identical)"),
 "C16": dict(breaks="C16", change="compute_advection_diffusion_stable_timestep takes the velocity maximum over the interior cells only", needs="the largest velocity sits on the outermost ring of the grid and the advective limit binds"),
 "C17": dict(breaks="C17", change="IO._save passes dtype=self.real_dtype to the three Lagrangian create_dataset calls", needs="IO declared float32 with float64 registered Lagrangian arrays (CosseratRodIO(real_dtype=float32))"),
 "C18": dict(breaks="C18", change="UnboundedPoissonSolverPYFFTW2D.solve clears only the padding with slices [ny:, :] and [:nx, nx:] (x/y extents mixed up)", needs="2-D grid taller than wide and a solver object that has solved before (uninterrupted run) vs a fresh one (resumed run)"),
 "C19": dict(breaks="C19", change="3-D boundary damping computes the far-face coordinates from grid size * dx with the x and z extents swapped", needs="3-D grid with nx != nz and width >= 1"),
 "C20": dict(breaks="C20", change="(see notes.md)", needs="(see notes.md)"),
}
for sid, info in INFO.items():
    d = os.path.join(V, "seeded", sid)
    p = os.path.join(d, "meta.json")
    if not os.path.isdir(d) or not os.path.exists(p):
        continue
    m = json.load(open(p))
    m.update({"property_broken": info["breaks"], "change": info["change"], "needs_to_manifest": info["needs"], "author": "independent sub-agent given only the property text and a scratch worktree"})
    cr = m.get("checks_run", {})
    m["caught_by"] = sorted(k for k, v in cr.items() if v == 1)
    m["not_caught_by"] = sorted(k for k, v in cr.items() if v == 0)
    m["inconclusive_in"] = sorted(k for k, v in cr.items() if v not in (0, 1))
    json.dump(m, open(p, "w"), indent=1)
    print(sid, "caught by", m["caught_by"], "| quiet:", m["not_caught_by"], "| inconclusive:", m["inconclusive_in"])
