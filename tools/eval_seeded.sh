#!/bin/sh
# tools/eval_seeded.sh <ID> <src_out_dir> [checks...]  - confirm an independently seeded change in a scratch worktree
#   (demo passes without / fails with the patch; pinned tests still pass), then run our checks against it.
# Writes /verif/seeded/<ID>/{patch.diff,demo.py,notes.md,meta.json,check_<C>.log}
set -u
ID="$1"; SRC="$2"; shift 2
CHECKS="${*:-}"
WT=/tmp/ev/$ID
OUT=/verif/seeded/$ID
mkdir -p /tmp/ev "$OUT"
cd /repo && git worktree remove --force "$WT" 2>/dev/null; git worktree add -q "$WT" HEAD || exit 9
cp "$SRC/patch.diff" "$SRC/demo.py" "$OUT/" 2>/dev/null; cp "$SRC/notes.md" "$OUT/" 2>/dev/null
mkdir -p "$WT/_out" && cp "$SRC/demo.py" "$WT/_out/demo.py"
cd "$WT"
/venv/bin/python _out/demo.py > "$OUT/demo_without.log" 2>&1; rc0=$?
git apply "$OUT/patch.diff" || { echo "PATCH DOES NOT APPLY"; cd /repo; git worktree remove --force "$WT"; exit 8; }
/venv/bin/python _out/demo.py > "$OUT/demo_with.log" 2>&1; rc1=$?
echo "demo without patch rc=$rc0, with patch rc=$rc1"
if [ "${SKIP_TESTS:-0}" != "1" ]; then
  /venv/bin/python -m pytest -q -p no:cacheprovider --timeout=900 --continue-on-collection-errors --junitxml="$OUT/junit.xml" > "$OUT/pytest.log" 2>&1
  stable=$(python3 - "$OUT/junit.xml" <<'PY'
import json, sys, xml.etree.ElementTree as ET
sp=set(json.load(open('/root/.vp/BASELINE.json'))['stable_pass'])
res={}
for tc in ET.parse(sys.argv[1]).iter('testcase'):
    res[tc.get('classname')+'::'+tc.get('name')] = not any(ch.tag in ('failure','error','skipped') for ch in tc)
bad=[s for s in sp if not res.get(s)]
print(len(bad))
PY
)
  echo "stable tests failing with patch: $stable"
else
  stable="skipped"
fi
results=""
for C in $CHECKS; do
  mkdir -p /tmp/ev/evidence_$ID /tmp/ev/replays_$ID
  VERIF_REPO="$WT" VERIF_EVIDENCE_DIR=/tmp/ev/evidence_$ID VERIF_REPLAY_DIR=/tmp/ev/replays_$ID /verif/check $C > "$OUT/check_$C.log" 2>&1; rc=$?
  echo "check $C rc=$rc :: $(tail -1 "$OUT/check_$C.log" | cut -c1-200)"
  results="$results $C:$rc"
done
python3 - "$ID" "$rc0" "$rc1" "$stable" "$results" <<'PY'
import json, sys, os
ID, rc0, rc1, stable, results = sys.argv[1:6]
out=f"/verif/seeded/{ID}/meta.json"
meta = json.load(open(out)) if os.path.exists(out) else {}
meta.update({"id": ID, "demo_rc_without_patch": int(rc0), "demo_rc_with_patch": int(rc1), "stable_tests_failing_with_patch": stable,
             "checks_run": {r.split(':')[0]: int(r.split(':')[1]) for r in results.split()},
             "how_confirmed": "scratch git worktree of /repo HEAD: demo.py run without and with patch.diff; full pinned pytest command with the patch compared against BASELINE.json stable_pass; checks run with VERIF_REPO=<worktree> (and via git -C /repo apply for the final confirmation where noted)"})
json.dump(meta, open(out,"w"), indent=1)
PY
cd /repo && git worktree remove --force "$WT"
rm -rf /tmp/ev/evidence_$ID /tmp/ev/replays_$ID
