#!/usr/bin/env python3
"""tools/make_seed_prompts.py <root dir>  - writes one prompt per property for an independent sub-agent that is to seed a
regression.  The agent gets ONLY the property text (plus one-line descriptions of changes already tried, so that it picks
something different) and its own scratch worktree <root>/<ID>; nothing from /verif."""
import json, os, sys
V = os.path.dirname(os.path.dirname(os.path.abspath(__file__)))
root = sys.argv[1]
tried = {}
for d in sorted(os.listdir(os.path.join(V, "seeded"))):
    p = os.path.join(V, "seeded", d, "meta.json")
    if os.path.exists(p):
        m = json.load(open(p))
        tried.setdefault(m.get("property_broken"), []).append(m.get("change", ""))
os.makedirs(os.path.join(root, "_prompts"), exist_ok=True)
for line in open(os.path.join(V, "properties.jsonl")):
    pr = json.loads(line)
    pid = pr["id"]
    wt = f"{root}/{pid}"
    prev = "".join(f'\n    - "{c}"' for c in tried.get(pid, []))
    txt = f"""You are helping to evaluate a verification effort for the open-source Python library SophT (2D/3D flow-structure interaction simulator: pystencils stencil kernels, FFT Poisson solvers, immersed-boundary coupling to PyElastica). Your job is to play the role of a developer who introduces a SUBTLE REGRESSION.

Work ONLY inside the git worktree at {wt} (a checkout of the library; run all commands from that directory). Do NOT read or write anything under /repo or /verif. Put your deliverables in {wt}/_out/ .

PROPERTY the library is supposed to satisfy (id {pid}):
  Title: {pr['title']}
  Statement: {pr['statement']}
  Quantified over: {pr['quantifier']['text']}
  Why the existing tests cannot establish it: {pr['why_tests_cant']}
  Source files it is anchored in: {', '.join(pr['anchors']['files'])}

TASK: make ONE small change to the library source under {wt}/sopht/ that BREAKS this property as it is STATED above (not merely changes behaviour somewhere the statement does not speak about), while the code still imports/compiles and the pinned test suite still passes. The change must need something specific to manifest - an unusual input or option combination, a particular multi-step sequence of calls, leftover state, a second object in the same process, two sites that each look fine alone, a particular array layout or dtype, a threshold - NOT something that any ordinary use would expose at once. Prefer a change a plausible refactor, optimisation or clean-up could introduce. Do not touch tests.
Previous participants already tried these changes for this property, so choose something of a DIFFERENT nature and in a different place (different function / clause of the property if possible; in particular NOT another cache keyed on an incomplete argument list if one is listed):{prev if prev else ' (none)'}
Be creative: think about clauses of the statement that are easy to overlook (scalar vs vector variants, 2D vs 3D, single precision, option flags, vector wrappers' component pairing, minimal sizes, call order, sign conventions, units/prefactors, error paths that must raise, objects sharing state, in-place vs out-of-place arguments).

DELIVERABLES in {wt}/_out/ :
  1. patch.diff  - `git diff` of your change (only files under sopht/). Toggle it with `git apply -R _out/patch.diff` / `git apply _out/patch.diff`; do NOT use `git stash` (it is shared between worktrees).
  2. demo.py     - exits 0 on the ORIGINAL code and non-zero WITH your change. Run from {wt} as `/venv/bin/python _out/demo.py`. IMPORTANT: a script under _out/ has _out/ (not the worktree) first on sys.path; insert the worktree root (parent directory of the script's directory) at sys.path[0] before importing sopht, otherwise the installed copy under /repo is imported. Verify both behaviours yourself. Keep the demo under ~2 minutes.
  3. notes.md    - which clause of the property it breaks (quote it), exactly what is needed for the breakage to manifest, what you ran.

ENVIRONMENT FACTS (no network; use /venv/bin/python):
  * Pinned test suite: `cd {wt} && /venv/bin/python -m pytest -ra -q -p no:cacheprovider --timeout=900 --continue-on-collection-errors`. 414 tests pass and ~328 always fail in this sandbox (installed pystencils 2.0 rejects a keyword the library passes). The tests that must keep passing are the "stable_pass" array in /root/.vp/BASELINE.json (`module.path::test[param]`). Confirm at the end that they still pass with your change (the whole suite takes ~10-15 minutes; use --junitxml and compare).
  * To EXECUTE pystencils kernels / flow simulators in demo.py, put this at the very top, before importing sopht:
        import pystencils as ps
        from pystencils.defaults import DEFAULTS
        from pystencils.sympyextensions.typed_sympy import DynamicType, TypedSymbol
        _orig = ps.CreateKernelConfig
        ps.CreateKernelConfig = lambda *a, **k: _orig(*a, **{{kk: v for kk, v in k.items() if kk != "default_number_float"}})
        DEFAULTS.spatial_counter_names = tuple(f"ctr_{{i}}" for i in range(4))
        DEFAULTS.spatial_counters = tuple(TypedSymbol(f"ctr_{{i}}", DynamicType.INDEX_TYPE) for i in range(4))
    (kernel compilation ~1 s each; keep grids small). numba, pyfftw, h5py, PyElastica (import elastica as ea) work normally.
  * Keep everything inside {wt}. Do not commit.

When done, reply with a one-paragraph description of the change, the clause of the statement it breaks, the exact condition needed to manifest it, and confirmation of (a) demo passes on original, (b) demo fails with change, (c) stable tests still pass with the change.
"""
    open(os.path.join(root, "_prompts", pid + ".txt"), "w").write(txt)
print("written", root)
