#!/bin/sh
# applies each seeded/<id>/patch.diff to /repo, runs the named check(s) the registered way, reverts
cd /repo && git diff --quiet || { echo "repo dirty"; exit 9; }
for id in "$@"; do
  tgt=$(python3 -c "import json;print(json.load(open('/verif/seeded/$id/meta.json'))['property_broken'])")
  cb=$(python3 -c "import json;m=json.load(open('/verif/seeded/$id/meta.json'));print(' '.join(sorted(set([m['property_broken']]+m.get('caught_by',[])))))")
  git -C /repo apply /verif/seeded/$id/patch.diff || { echo "$id: patch does not apply"; continue; }
  res=""
  for C in $cb; do
    cp /verif/evidence/$C.json /tmp/_ev_keep_$C.json 2>/dev/null
    out=$(cd /verif && ./check $C 2>&1); rc=$?
    cp /tmp/_ev_keep_$C.json /verif/evidence/$C.json 2>/dev/null
    nv=$(echo "$out" | grep -c "^VIOLATION")
    res="$res $C:$rc"
    echo "$id -> check $C rc=$rc violations_lines=$nv"
  done
  git -C /repo checkout -- .
  python3 - "$id" "$res" <<'PY'
import json, sys
sid, res = sys.argv[1], sys.argv[2]
p=f"/verif/seeded/{sid}/meta.json"; m=json.load(open(p))
m["confirmed_with_git_apply_in_repo"] = {r.split(':')[0]: int(r.split(':')[1]) for r in res.split()}
json.dump(m, open(p,"w"), indent=1)
PY
done
git -C /repo status --short | head -3
