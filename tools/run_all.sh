#!/bin/sh
# tools/run_all.sh [quick|thorough]  - runs every claimed check on the current tree, prints one line each
tier=${1:-quick}
cd /verif
for id in $(python3 -c "import json;print(' '.join(c['property_id'] for c in json.load(open('MANIFEST.json'))['checks']))"); do
  s=$(date +%s)
  out=$(./check $id --tier $tier 2>&1); rc=$?
  e=$(date +%s)
  echo "$id rc=$rc $((e-s))s :: $(echo "$out" | tail -1)"
  echo "$out" | grep -E "^(VIOLATION|INCONCLUSIVE|KNOWN-FINDING)" | head -5
done
