#!/bin/sh
# tools/mutate.sh <file-in-repo> <sed-expr> <check-id> [check args...]   (applies, runs, reverts; evidence file preserved)
f="$1"; e="$2"; id="$3"; shift 3
cd /repo && git diff --quiet || { echo "repo dirty"; exit 9; }
sed -i "$e" "$f"
if git diff --quiet; then echo "MUTATION DID NOT APPLY"; exit 8; fi
git diff --stat | tail -1
cp /verif/evidence/$id.json /tmp/_ev_$id.json 2>/dev/null
cd /verif && ./check "$id" "$@" 2>&1 | tail -${TAILN:-6}
cp /tmp/_ev_$id.json /verif/evidence/$id.json 2>/dev/null
cd /repo && git checkout -- . 
echo "reverted"
