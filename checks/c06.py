#!/usr/bin/env python
"""C06 - interpolation kernels are a partition of unity with the documented moments.

The real support kernel, weight kernels (cosine / Peskin) and Eulerian->Lagrangian interpolation
kernels (numba sources executed as Python) run on a marker whose position inside its cell is a
solver variable: p_a = shift + (k_a + f_a) dx with f_a in [0,1) (cases f_a = 0 and 0 < f_a < 1 per
axis), plus the float-floor slack case (index one lower while the marker sits within eps above a
cell centre).  Branches (abs, <, floor) are pruned by SMT queries under the case assumptions.
"""
import itertools
import os
import sys
from fractions import Fraction

sys.path.insert(0, os.path.dirname(os.path.dirname(os.path.abspath(__file__))))
import numpy as np  # noqa: E402

from checks.common import Check, close, merge_equal_radicands, scenario, sopht_modules  # noqa: E402

EPS_SLACK = Fraction(1, 2**20)


def _modules(dim):
    sopht_modules()
    import importlib

    importlib.import_module(f"sopht.numeric.immersed_boundary_ops.EulerianLagrangianGridCommunicator{dim}D")
    m = sys.modules[f"sopht.numeric.immersed_boundary_ops.EulerianLagrangianGridCommunicator{dim}D"]
    sfx = f"_{dim}d"
    return (getattr(m, "generate_local_eulerian_grid_support_of_lagrangian_grid_kernel" + sfx), getattr(m, "generate_cosine_interpolation_weights_kernel" + sfx),
            getattr(m, "generate_peskin_interpolation_weights_kernel" + sfx), getattr(m, "generate_eulerian_to_lagrangian_grid_interpolation_kernel" + sfx))


def _sum(a):
    acc = 0.0
    for v in np.asarray(a).reshape(-1):
        acc = acc + v
    return acc


@scenario
def delta_kernel(ctx, dim, kernel, grid, cell, case, dx_kind, n_markers=1, via="class"):
    """case: tuple per axis of 'zero' | 'interior' | 'slack'"""
    gen_support, gen_cos, gen_pesk, gen_interp = _modules(dim)
    _, _, sps, _ = sopht_modules()
    grid = tuple(grid)
    sim = sps.PassiveTransportFlowSimulator(kinematic_viscosity=0.1, grid_dim=dim, grid_size=grid, x_range=(1.0 if dx_kind == "unit" else 0.37), real_t=ctx.real_t, num_threads=1)
    dx = sim.dx
    shift = dx / 2
    dxf = float(dx)
    n = n_markers
    # many markers (size-gated code paths): the first and the last marker are symbolic, the others sit at fixed offsets
    msel = list(range(n)) if n <= 2 else [0, n - 1]
    # marker position: component a (x first) in cell k_a = cell[a] with offset f_a
    f = []
    pos = ctx.zeros((dim, n))
    for m in range(n):
        for a in range(dim):
            if m not in msel:
                pos[a, m] = float(shift) + (cell[a] + 0.25 + 0.5 * ((m + a) % 2)) * dxf
                continue
            if case[a] == "zero":
                fa = 0.0
            elif case[a] == "interior":
                fa = ctx.scalar(f"f{a}_{m}", default=0.5)
                ctx.assume(fa > 0)
                ctx.assume(fa < 1)
            else:  # slack: marker a hair above the centre of cell k+1, index floors to k (acknowledged float behaviour)
                fa = ctx.scalar(f"f{a}_{m}", default=1.0)
                ctx.assume(fa >= 1)
                ctx.assume(fa <= 1 + EPS_SLACK)
            f.append(fa)
            if ctx.sym:
                from symsopht import sym as S

                # exact rational arithmetic (a float sum would round and move an on-centre marker off the centre)
                pos[a, m] = S.lift(shift) + (S.lift(cell[a] + (m if n <= 2 else 0)) + S.lift(fa)) * S.lift(dx)
            else:
                pos[a, m] = float(shift) + (cell[a] + (m if n <= 2 else 0) + fa) * dxf
    support = ctx.array("support_prior", (dim,) + (4,) * dim + (n,))
    weights = ctx.array("weights_prior", (4,) * dim + (n,))
    if ctx.sym:
        nearest = ctx.array("nearest_prior", (dim, n))
    else:
        nearest = np.zeros((dim, n), dtype=int)
        pos = pos.astype(ctx.real_t)
    if via == "class":
        # the documented entry point: the communicator object hands out the three kernels
        cls = getattr(sys.modules[f"sopht.numeric.immersed_boundary_ops.EulerianLagrangianGridCommunicator{dim}D"], f"EulerianLagrangianGridCommunicator{dim}D")
        comm = cls(dx=dx, eul_grid_coord_shift=shift, num_lag_nodes=n, interp_kernel_width=2, real_t=ctx.real_t, n_components=1, interp_kernel_type=kernel)
        k_support, k_weights = comm.local_eulerian_grid_support_of_lagrangian_grid_kernel, comm.interpolation_weights_kernel
    else:
        k_support = gen_support(dx=dx, eul_grid_coord_shift=shift, num_lag_nodes=n, interp_kernel_width=2)
        k_weights = (gen_pesk if kernel == "peskin" else gen_cos)(dx=dx, interp_kernel_width=2, real_t=ctx.real_t)
    ctx.enable_pruning()
    if ctx.sym and "slack" in case:
        # model the acknowledged floor behaviour: the index is one below floor() on the slack axes
        from symsopht import sym as S

        slack_axes = [a for a in range(dim) if case[a] == "slack"]
        k_support(support, nearest, pos)
        for m in range(n):
            for a in slack_axes:
                nearest[a, m] = nearest[a, m] - 1
        # recompute the distances from the lowered index exactly as the kernel does (its second statement)
        idx = np.arange(-1, 3)
        mesh = np.meshgrid(*([idx] * dim), indexing="ij")
        comp = list(reversed(mesh))  # component 0 (x) varies along the last window axis
        for a in range(dim):
            for m in range(n):
                support[a][..., m] = (nearest[a, m] + comp[a]) * dxf + float(shift) - pos[a, m]
    else:
        k_support(support, nearest, pos)
    if not ctx.sym and "slack" in case:
        # numeric replay of a slack case: lower the index by hand only if floor did not already do so
        for m in range(n):
            for a in range(dim):
                if case[a] == "slack" and nearest[a, m] == cell[a] + m + 1:
                    nearest[a, m] -= 1
        idx = np.arange(-1, 3)
        mesh = np.meshgrid(*([idx] * dim), indexing="ij")
        comp = list(reversed(mesh))
        for a in range(dim):
            for m in range(n):
                support[a][..., m] = (nearest[a, m] + comp[a]) * dxf + float(shift) - pos[a, m]
    for m in msel:
        for a in range(dim):
            if ctx.sym or case[a] == "interior":
                ctx.eq(f"nearest_index[{a},{m}]", nearest[a, m], float(cell[a] + (m if n <= 2 else 0)))
            # (replay of an on-centre / slack case: floating-point floor may legitimately return the index below -
            #  the behaviour the source comment acknowledges - so the index itself is not asserted there)
    dist = support.copy()  # signed distances marker -> support cells
    k_weights(weights, support)
    ctx.disable_pruning()
    if ctx.sym:
        # lemma step: sqrt applications with provably equal radicands are merged (each merge is an SMT query)
        flat = list(np.asarray(weights).reshape(-1))
        merged = merge_equal_radicands(ctx, flat)
        weights = weights.copy()
        weights.reshape(-1)[...] = merged
    ctx.prefer = "nlsat"
    vol = dxf**dim
    # equalities are exact except (a) the slack case and (b) spacings that are not exactly representable ("odd"): there the
    # grid coordinates / shift are floats that are not exact multiples of dx, so on-centre claims hold up to rounding only
    tol = 0.0 if ("slack" not in case and dx_kind == "unit") else (1e-9 if ctx.real_t == np.float64 else 2e-5)
    for m in msel:
        w = weights[..., m]
        for idx in np.ndindex(*w.shape):
            ctx.le(f"weight_nonnegative[{','.join(map(str, idx))},{m}]", 0.0, w[idx])
            # cells whose centre is >= 2 dx away along some axis carry no weight
            far = None
            for a in range(dim):
                d = dist[a][idx + (m,)]
                if ctx.sym:
                    from symsopht import sym as S

                    c = S.sabs(S.lift(d)) >= 2 * dxf
                    far = c if far is None else S.Or(far, c)
                else:
                    c = abs(d) >= 2 * dxf
                    far = c if far is None else (far or c)
            if kernel == "cosine" and "slack" in case:
                # the cosine delta has no cut-off: a window cell at distance 2+delta carries weight O(delta^2), not 0
                continue
            if ctx.sym:
                from symsopht import sym as S

                ctx.claim(f"weight_zero_outside_support[{','.join(map(str, idx))},{m}]", S.Implies(far, S.lift(w[idx]) == 0))
            else:
                ctx.claim(f"weight_zero_outside_support[{','.join(map(str, idx))},{m}]", (not far) or abs(w[idx]) <= ctx.tol / vol)
        total = _sum(w) * vol
        if tol:
            close(ctx, f"partition_of_unity[{m}]", total, 1.0, tol)
        else:
            ctx.eq(f"partition_of_unity[{m}]", total, 1.0)
        if kernel == "peskin":
            for a in range(dim):
                mom = _sum(w * dist[a][..., m]) * vol
                if tol:
                    close(ctx, f"first_moment[{a},{m}]", mom, 0.0, tol)
                else:
                    ctx.eq(f"first_moment[{a},{m}]", mom, 0.0)
    # interpolation through the real kernel: constant field and the simulator's coordinate field
    k_interp = comm.eulerian_to_lagrangian_grid_interpolation_kernel if via == "class" else gen_interp(dx=dx, num_lag_nodes=n, interp_kernel_width=2, n_components=1)
    # the interpolation kernel is linear in the field (sum of field * weight): one concrete constant suffices
    cval = 0.75
    field = ctx.zeros(grid) + cval
    out = ctx.array("lag_prior", (n,))
    nearest_int = nearest if not ctx.sym else np.array([[int(v) for v in row] for row in nearest], dtype=int)
    k_interp(out, field, weights, nearest_int)
    for m in msel:
        (close(ctx, f"interpolated_constant[{m}]", out[m], cval, max(tol, 1e-7)) if tol else ctx.eq(f"interpolated_constant[{m}]", out[m], cval))
    if kernel == "peskin":
        for a in range(dim):
            out = ctx.array("lag_prior2", (n,))
            k_interp(out, ctx.const_array(sim.position_field[a]), weights, nearest_int)
            for m in msel:
                (close(ctx, f"interpolated_coordinate[{a},{m}]", out[m], pos[a, m], max(tol, 1e-7)) if tol else ctx.eq(f"interpolated_coordinate[{a},{m}]", out[m], pos[a, m]))


def main():
    chk = Check("C06", "delta kernels: partition of unity, support, sign, first moment, exact interpolation of constants/coordinates with the marker offset symbolic (z3, branches pruned by SMT)",
                functions=["local_eulerian_grid_support_of_lagrangian_grid_kernel_2d/3d", "cosine_interpolation_weights_kernel_2d/3d", "peskin_interpolation_weights_kernel_2d/3d",
                           "eulerian_to_lagrangian_grid_interpolation_kernel_2d/3d", "FlowSimulator._init_domain"],
                files=["sopht/numeric/immersed_boundary_ops/EulerianLagrangianGridCommunicator2D.py", "sopht/numeric/immersed_boundary_ops/EulerianLagrangianGridCommunicator3D.py",
                       "sopht/simulator/flow/flow_simulators.py"])
    chk.maybe_replay()
    sopht_modules()
    rts = ["float64"] if chk.quick else ["float64", "float32"]
    for rt in rts:
        for dim in (2, 3):
            grid = (7, 8) if dim == 2 else (7, 6, 8)
            grid_x_first = tuple(reversed(grid))
            cells = [tuple(3 for _ in range(dim))]
            if not chk.quick:
                cells += [tuple(2 for _ in range(dim)), tuple(g - 4 for g in grid_x_first)]
            for kernel in ("peskin", "cosine"):
                for case in itertools.product(("zero", "interior"), repeat=dim):
                    for cell in cells:
                        for dxk in (("unit",) if chk.quick else ("unit", "odd")):
                            chk.add(delta_kernel, real_t=rt, dim=dim, kernel=kernel, grid=grid, cell=cell, case=list(case), dx_kind=dxk)
                # float-floor slack on one axis (others interior)
                for a in range(dim if not chk.quick else 1):
                    case = ["interior"] * dim
                    case[a] = "slack"
                    chk.add(delta_kernel, real_t=rt, dim=dim, kernel=kernel, grid=grid, cell=cells[0], case=case, dx_kind="unit")
                chk.add(delta_kernel, real_t=rt, dim=dim, kernel=kernel, grid=grid, cell=[2] * dim, case=["interior"] * dim, dx_kind="unit", n_markers=2, via="generators")
                # communicators built earlier in the same process (other delta function / spacing / marker count / precision)
                other = "cosine" if kernel == "peskin" else "peskin"
                chk.add(delta_kernel, real_t=rt, dim=dim, kernel=kernel, grid=grid, cell=cells[0], case=["interior"] * dim, dx_kind="unit",
                        _earlier=[{"kernel": other}, {"dx_kind": "odd", "n_markers": 2, "cell": [2] * dim}, {"_real_t": "float32" if rt == "float64" else "float64", "kernel": other}])
    # size-gated code paths: the generators are called for every marker count 1..1100 (+ powers of two up to 8192);
    # each distinct code variant of the returned kernels is decided at the smallest marker count that selects it
    from checks.common import size_variants

    sizes = list(range(1, 1101)) + [2 ** k + d for k in range(11, 14) for d in (-1, 0, 1)]
    variants = {}
    for dim in (2, 3):
        gs, gc, gp, gi = _modules(dim)
        vs = set(size_variants(lambda n_: gs(dx=0.125, eul_grid_coord_shift=0.0625, num_lag_nodes=n_, interp_kernel_width=2), sizes))
        vs |= set(size_variants(lambda n_: gi(dx=0.125, num_lag_nodes=n_, interp_kernel_width=2, n_components=1), sizes))
        variants[dim] = sorted(vs)
        for nv in variants[dim]:
            if nv <= 2:
                continue
            grid = (7, 8) if dim == 2 else (7, 6, 8)
            for kernel in ("peskin", "cosine"):
                for via in ("class", "generators"):
                    chk.add(delta_kernel, real_t="float64", dim=dim, kernel=kernel, grid=grid, cell=[3] * dim, case=["interior"] * dim, dx_kind="unit", n_markers=nv, via=via)
    chk.extra["marker_counts_selecting_distinct_kernel_code"] = {str(k): v for k, v in variants.items()}
    if chk.quick:
        for dim in (2, 3):
            for kernel in ("peskin", "cosine"):
                chk.add(delta_kernel, real_t="float32", dim=dim, kernel=kernel, grid=((7, 8) if dim == 2 else (7, 6, 8)), cell=[3] * dim, case=["zero"] + ["interior"] * (dim - 1), dx_kind="unit")
    chk.bounds = ["marker counts: the support and interpolation generators are called for every count in 1..1100 and 2^k-1..2^k+1 (k=11..13); every distinct code variant of the returned kernel is decided (first and last marker symbolic)", "kernels obtained from the communicator class (one 2-marker run through the bare generators); later-object instances: communicators with the other delta function / another spacing / marker count / precision are built and used first in the same process", "one marker (kernels are per-marker maps) + a 2-marker run for the tiling; marker offset f_a in [0,1) symbolic per axis (cases f=0 / 0<f<1), cell index enumerated",
                  "float-floor slack: marker within 2^-20 cell widths above a cell centre with the index one lower (tolerance 1e-9 on sums)", "grids (7,8) / (7,6,8) (dx = 1/8 exactly representable); dx = 1/n (and 0.37/n thorough); both kernels; 2D and 3D"]
    chk.outside = ["markers closer than two cells to the domain boundary (documented TODO of the source)", "rounding of the weight evaluation itself", "symbolic dx (dx only rescales distances; enumerated values)"]
    chk.assumptions = ["sqrt: s >= 0 and s^2 = radicand; cos/sin: |.| <= 1, exact values at multiples of pi/2, shift identities for arguments differing by multiples of pi/2",
                       "floor slack modelled as: index may be one lower when the marker is within eps above a cell centre"]
    chk.run()
    chk.finish()


if __name__ == "__main__":
    main()
