#!/usr/bin/env python
"""C14 - the flow step has no preferred direction (axis permutation / mirror equivariance).

Two symbolic runs of the real simulator: a state S on grid G and the relabelled state g.S on the
relabelled grid g.G, built from the SAME solver variables (vorticity as pseudo-scalar/-vector,
velocity / forcing / free stream as vectors).  step(g.S) must equal g.step(S).
Part T (transport): forcing -> transport -> diffusion -> filter -> damping, exact, compactly supported
vorticity/forcing, arbitrary velocity with ENO ties excluded.  Part V (velocity recovery): Poisson
solve -> curl -> free stream on bounded arbitrary vorticity (tolerance: the two solver objects carry
their own floating-point tables)."""
import itertools
import os
import sys

sys.path.insert(0, os.path.dirname(os.path.dirname(os.path.abspath(__file__))))
import numpy as np  # noqa: E402

from checks.c04_step import _compact  # noqa: E402
from checks.common import Check, bound_vars, close_array, scenario, sopht_modules  # noqa: E402
from checks.flowstep import run_step  # noqa: E402


def perm_sign(p):
    s, p = 1, list(p)
    for i in range(len(p)):
        while p[i] != i:
            j = p[i]
            p[i], p[j] = p[j], p[i]
            s = -s
    return s


def transform(arr, g, kind, dim):
    """g = (perm, flips): perm acts on ARRAY axes (new axis k <- old axis perm[k]); flips = old array axes mirrored first.
    kind: 'scalar' | 'vector' | 'pseudo' (pseudo-scalar in 2D, pseudo-vector in 3D).  Component c lives on array axis dim-1-c."""
    perm, flips = g
    a = arr.copy()
    ncomp = a.shape[0] if a.ndim == dim + 1 else None
    off = 1 if ncomp else 0
    det = perm_sign(perm) * (-1) ** len(flips)
    # mirrors
    for ax in flips:
        a = np.flip(a, axis=off + ax).copy()
        if kind == "vector":
            c = dim - 1 - ax
            a[c] = -a[c]
    # permutation of spatial axes
    a = np.transpose(a, ([0] if ncomp else []) + [off + p for p in perm]).copy()
    if ncomp and kind in ("vector", "pseudo"):
        out = a.copy()
        for k in range(dim):  # new array axis k carries old axis perm[k]
            out[dim - 1 - k] = a[dim - 1 - perm[k]]
        a = out
    if kind == "pseudo":
        if ncomp:
            # pseudo-vector: omega -> det(R) R omega ; R omega has the mirrored components negated
            for ax in flips:
                c_new = dim - 1 - list(perm).index(ax)
                a[c_new] = -a[c_new]
            if det < 0:
                a = -a
        elif det < 0:
            a = -a
    return a


def transform_vec(v, g, dim):
    perm, flips = g
    v = list(v)
    for ax in flips:
        v[dim - 1 - ax] = -v[dim - 1 - ax]
    out = [None] * dim
    for k in range(dim):
        out[dim - 1 - k] = v[dim - 1 - perm[k]]
    return out


def relabel_cfg(cfg, g):
    perm, _ = g
    c2 = dict(cfg)
    shape = cfg["shape"]
    c2["shape"] = tuple(shape[p] for p in perm)
    # keep the same spacing: dx = x_range / n_x
    c2["x_range"] = cfg.get("x_range", 1.0) * c2["shape"][-1] / shape[-1]
    return c2


def _no_eno_ties(ctx, u, dim):
    """no face velocity sum is exactly zero (as the statement assumes)"""
    if not ctx.sym:
        return
    for a in range(dim):
        ax = dim - 1 - a
        ua = np.moveaxis(u[a], ax, -1)
        s = ua[..., 1:] + ua[..., :-1]
        from symsopht import sym as S

        for v in np.asarray(s).reshape(-1):
            cond = v != 0
            ctx.assume(cond)
            if cond.op == "not" and cond.args[0].op == "eq":
                S.NONZERO.add(cond.args[0].args[0].hid)


@scenario
def transport_part(ctx, cfg, g, margin):
    dim = len(cfg["shape"])
    g = (tuple(g[0]), tuple(g[1]))
    ctx.prefer = "nlsat"
    passive = cfg["kind"] == "passive"
    vec = (cfg["kind"] == "ns3d") or cfg.get("field_type") == "vector"
    wkind = ("vector" if vec else "scalar") if passive else "pseudo"

    def init1(sim):
        tgt = sim.primary_field if passive else sim.vorticity_field
        tgt[...] = _compact(ctx, "wc", tgt.shape, margin, dim)
        if cfg.get("forcing"):
            sim.eul_grid_forcing_field[...] = _compact(ctx, "fc", sim.eul_grid_forcing_field.shape, margin, dim)

    r1 = run_step(ctx, cfg, tag="a_", scalar_tag="", cuts=False, stub_poisson=True, init=init1, step=False)
    if cfg["kind"] != "ns3d":
        _no_eno_ties(ctx, r1["u0"], dim)
    sim1 = r1["sim"]
    (sim1.time_step(r1["dt"], free_stream_velocity=r1["U"]) if cfg.get("free_stream") else sim1.time_step(r1["dt"]))
    r1["w1"] = sim1.primary_field if passive else sim1.vorticity_field
    cfg2 = relabel_cfg(cfg, g)

    def init2(sim):
        tgt = sim.primary_field if passive else sim.vorticity_field
        tgt[...] = transform(r1["w0"], g, wkind, dim)
        sim.velocity_field[...] = transform(r1["u0"], g, "vector", dim)
        if cfg.get("forcing"):
            sim.eul_grid_forcing_field[...] = transform(r1["f0"], g, "vector", dim)

    U2 = transform_vec(r1["U"], g, dim)
    r2 = run_step(ctx, cfg2, tag="b_", scalar_tag="", cuts=False, stub_poisson=True, init=init2, U=U2)
    ctx.eq_array("step(g.S)=g.step(S):vorticity", r2["w1"], transform(r1["w1"], g, wkind, dim))
    ctx.eq("clock", r2["sim"].time, r1["sim"].time)


@scenario
def velocity_part(ctx, cfg, g):
    """Poisson solve -> curl -> free stream, the three statements that close _navier_stokes_time_step"""
    from checks.common import Ctx

    dim = len(cfg["shape"])
    g = (tuple(g[0]), tuple(g[1]))
    tol = 1e-11 if ctx.real_t == np.float64 else 5e-5
    r1 = run_step(ctx, cfg, tag="a_", scalar_tag="", cuts=False, step=False)
    sim1 = r1["sim"]
    bound_vars(ctx, sim1.vorticity_field)
    w = sim1.vorticity_field.copy()
    cfg2 = relabel_cfg(cfg, g)
    U2 = transform_vec(r1["U"], g, dim)
    r2 = run_step(ctx, cfg2, tag="b_", scalar_tag="", cuts=False, step=False, U=U2)
    sim2 = r2["sim"]
    sim2.vorticity_field[...] = transform(w, g, "pseudo", dim)

    def recover(sim, U):
        ps = sim._unbounded_poisson_solver
        if dim == 2:
            ps.solve(solution_field=sim.stream_func_field, rhs_field=sim.vorticity_field)
        else:
            ps.vector_field_solve(solution_vector_field=sim.stream_func_field, rhs_vector_field=sim.vorticity_field)
        sim._curl(curl=sim.velocity_field, field=sim.stream_func_field, prefactor=sim.real_t(0.5 / sim.dx))
        sim._update_velocity_with_free_stream(free_stream_velocity=U)

    recover(sim1, r1["U"])
    recover(sim2, U2)
    # the stream function is a pseudo-scalar (2D) / pseudo-vector (3D) like the vorticity
    close_array(ctx, "stream_function(g.S)=g.stream_function(S)", sim2.stream_func_field, transform(sim1.stream_func_field, g, "pseudo", dim), tol)
    close_array(ctx, "velocity(g.S)=g.velocity(S)", sim2.velocity_field, transform(sim1.velocity_field, g, "vector", dim), tol * 100)


def group(dim, quick):
    if dim == 2:
        els = [((1, 0), ()), ((0, 1), (1,)), ((0, 1), (0,)), ((1, 0), (0,))]
        return els[:2] if quick else els
    perms = list(itertools.permutations(range(3)))
    els = [(p, ()) for p in perms if p != (0, 1, 2)] + [((0, 1, 2), (a,)) for a in range(3)] + [((1, 2, 0), (1,))]
    return [((1, 2, 0), ()), ((0, 2, 1), ()), ((0, 1, 2), (2,))] if quick else els


# heavy scenarios: a data-dependent branch introduced into the step forks them; keep the exploration bound small
transport_part.max_paths = 4
velocity_part.max_paths = 4


def main():
    chk = Check("C14", "axis permutation / mirror equivariance of the flow step: two symbolic runs on a state and its relabelled copy (z3)",
                functions=["UnboundedNavierStokesFlowSimulator2D/3D.time_step", "PassiveTransportFlowSimulator.time_step", "Poisson solvers + curl + free stream (velocity recovery)"],
                files=["sopht/simulator/flow/navier_stokes_flow_simulators.py", "sopht/simulator/flow/passive_transport_flow_simulators.py", "sopht/simulator/flow/flow_simulators.py",
                       "sopht/numeric/eulerian_grid_ops/stencil_ops_2d/advection_flux_2d.py", "sopht/numeric/eulerian_grid_ops/stencil_ops_3d/advection_flux_3d.py",
                       "sopht/numeric/eulerian_grid_ops/stencil_ops_3d/elementwise_ops_3d.py", "sopht/numeric/eulerian_grid_ops/poisson_solver_2d/UnboundedPoissonSolverPYFFTW2D.py",
                       "sopht/numeric/eulerian_grid_ops/poisson_solver_3d/UnboundedPoissonSolverPYFFTW3D.py", "sopht/numeric/eulerian_grid_ops/poisson_solver_3d/FastDiagPoissonSolver3D.py", "sopht/utils/field.py"])
    chk.maybe_replay()
    sopht_modules()
    q = chk.quick
    t2 = [(dict(kind="ns2d", shape=(10, 11), forcing=True, free_stream=True, width=0), 4), (dict(kind="passive", shape=(8, 9), field_type="scalar"), 3)]
    t3 = [(dict(kind="ns3d", shape=(9, 10, 11), forcing=True, free_stream=True, filter=("multiplicative", 1), solver="fast_diagonalisation", width=0), 4),
          (dict(kind="passive", shape=(8, 9, 10), field_type="scalar"), 3)]
    if not q:
        t2.append((dict(kind="ns2d", shape=(13, 14), forcing=True, free_stream=False, width=2), 6))
        t3.append((dict(kind="ns3d", shape=(12, 11, 13), forcing=False, free_stream=True, filter=("convolution", 2), solver="greens_function_convolution", width=1), 5))
        t3.append((dict(kind="passive", shape=(8, 9, 10), field_type="vector"), 3))
    # the other filter type (kwargs-only option of the 3-D simulator) under a cyclic permutation
    conv = dict(kind="ns3d", shape=(9, 10, 11), forcing=False, free_stream=False, filter=("convolution", 1), solver="fast_diagonalisation", width=0)
    chk.add(transport_part, cfg=conv, g=[[1, 2, 0], []], margin=4)
    for cfg, m in t2:
        for g in group(2, q):
            chk.add(transport_part, cfg=cfg, g=[list(g[0]), list(g[1])], margin=m)
    for cfg, m in t3:
        for g in group(3, q):
            chk.add(transport_part, cfg=cfg, g=[list(g[0]), list(g[1])], margin=m)
    v2 = [dict(kind="ns2d", shape=(4, 5), forcing=False, free_stream=True, width=0)]
    v3 = [dict(kind="ns3d", shape=(3, 4, 5), forcing=False, free_stream=True, filter=None, solver="fast_diagonalisation", width=0),
          dict(kind="ns3d", shape=(2, 3, 4), forcing=False, free_stream=True, filter=None, solver="greens_function_convolution", width=0)]
    for cfg in v2:
        for g in group(2, q):
            chk.add(velocity_part, cfg=cfg, g=[list(g[0]), list(g[1])])
    for cfg in v3:
        for g in group(3, q):
            chk.add(velocity_part, cfg=cfg, g=[list(g[0]), list(g[1])])
    chk.bounds = ["group elements: " + ("transposition + one mirror (2D), one cyclic + one odd permutation + one mirror (3D)" if q else "transposition, both mirrors, transposition.mirror (2D); all 5 non-trivial permutations, 3 mirrors, one composite (3D)"),
                  "transport part: non-cubic grids (10,11)/(8,9), (9,10,11) (Navier-Stokes) and (8,9,10) (passive) with compactly supported vorticity/forcing (margin = reach of the step), arbitrary velocity, ENO ties excluded, Poisson stage cut out",
                  "velocity part: (4,5) / (3,4,5) fast-diag / (2,3,4) Green's function; vorticity arbitrary in [-1,1]; tolerance 1e-11 (stream function), 1e-9 (velocity)"]
    chk.outside = ["the composition of the two parts on one grid with the exact FFT (cost); larger grids", "ENO ties (excluded by the statement)", "rounding"]
    chk.assumptions = ["same spacing dx on both grids (x_range rescaled by the new x size)", "each simulator uses its own floating-point tables (hence tolerances in the velocity part)"]
    chk.run()
    chk.finish()


if __name__ == "__main__":
    main()
