"""Shared harness for the immersed-body checks (C08, C09): real PyElastica bodies and real SophT
forcing grids are constructed numerically, then the body state and every work array of the grid are
replaced by solver variables (sym mode) or filled from a model (numeric replay)."""
import os
import sys

sys.path.insert(0, os.path.dirname(os.path.dirname(os.path.abspath(__file__))))
import numpy as np  # noqa: E402

from checks.common import sopht_modules  # noqa: E402

_PROXY_ON = [False]


class _NumpyProxy:
    """module-level `np` of PyElastica's helper kernels: allocators return symbolic arrays while on"""

    def __getattr__(self, name):
        return getattr(np, name)

    def empty(self, shape, *a, **k):
        if _PROXY_ON[0]:
            from symsopht.symarray import SymArray
            from symsopht import sym as S

            out = SymArray(shape)
            out[...] = S.ZERO
            return out
        return np.empty(shape, *a, **k)

    def zeros(self, shape, *a, **k):
        if _PROXY_ON[0]:
            from symsopht.symarray import SymArray
            from symsopht import sym as S

            out = SymArray(shape)
            out[...] = S.ZERO
            return out
        return np.zeros(shape, *a, **k)


def install_proxy():
    import elastica._linalg as L
    import elastica.contact_utils as C

    if not isinstance(L.np, _NumpyProxy):
        L.np = _NumpyProxy()
        C.np = L.np


def proxy(on):
    _PROXY_ON[0] = bool(on)


# ---------------------------------------------------------------------------------------------
RESULT_ARRAYS = {
    "position_field", "velocity_field", "moment_arm", "global_frame_relative_position_field", "rod_director_collection_transpose", "rod_element_position",
    "rod_element_velocity", "rod_element_global_frame_omega", "grid_point_director_transpose", "grid_point_radius", "grid_point_omega", "lag_grid_torque_field",
    "element_forces_left_edge_nodes", "element_forces_right_edge_nodes",
}
CONST_ARRAYS = {"local_frame_relative_position_field", "local_frame_surface_points", "grid_point_radius_ratio", "z_vector"}
KEEP_ARRAYS = {"start_idx", "end_idx", "surface_grid_points", "surface_point_rotation_angle_list"}


def make_body(kind, n_elems=2, taper="uniform"):
    import elastica as ea

    sopht_modules()
    if kind == "rod":
        if taper == "uniform":
            radius = 0.05
        elif taper == "linear":
            radius = np.linspace(0.08, 0.03, n_elems)
        else:  # one thin element (fewer than 3 surface points -> centre point)
            radius = np.array([0.08] + [0.01] + [0.06] * max(0, n_elems - 2))[:n_elems]
        return ea.CosseratRod.straight_rod(n_elems, np.array([0.3, 0.4, 0.35]), np.array([1.0, 0.0, 0.0]), np.array([0.0, 0.0, 1.0]), 0.3, radius, 1.0, youngs_modulus=1e4, shear_modulus=1e4 / 1.5)
    if kind == "cylinder":
        return ea.Cylinder(np.array([0.4, 0.5, 0.3]), np.array([0.0, 0.0, 1.0]), np.array([1.0, 0.0, 0.0]), 0.3, 0.1, 1.0)
    if kind == "sphere":
        return ea.Sphere(np.array([0.5, 0.5, 0.5]), 0.1, 1.0)
    if kind == "plane":
        from sopht.simulator.immersed_body import RectangularPlane

        return RectangularPlane(origin=np.array([0.5, 0.5, 0.5]), plane_normal=np.array([0.0, 0.0, 1.0]), plane_tangent_along_length=np.array([1.0, 0.0, 0.0]), plane_length=0.3, plane_breadth=0.2)
    raise ValueError(kind)


def make_grid(grid_kind, body, **kw):
    import sopht.simulator.immersed_body as spb

    table = {
        "nodal": lambda: spb.CosseratRodNodalForcingGrid(grid_dim=kw.get("dim", 3), cosserat_rod=body),
        "element": lambda: spb.CosseratRodElementCentricForcingGrid(grid_dim=kw.get("dim", 3), cosserat_rod=body),
        "edge": lambda: spb.CosseratRodEdgeForcingGrid(grid_dim=2, cosserat_rod=body),
        "surface": lambda: spb.CosseratRodSurfaceForcingGrid(grid_dim=3, cosserat_rod=body, surface_grid_density_for_largest_element=kw.get("density", 4), with_cap=kw.get("cap", False)),
        "cylinder2d": lambda: spb.CircularCylinderForcingGrid(grid_dim=2, rigid_body=body, num_forcing_points=kw.get("n", 5)),
        "cylinder3d": lambda: spb.OpenEndCircularCylinderForcingGrid(grid_dim=3, rigid_body=body, num_forcing_points_along_length=kw.get("n", 2)),
        "sphere": lambda: spb.SphereForcingGrid(grid_dim=3, rigid_body=body, num_forcing_points_along_equator=kw.get("n", 6)),
        "plane": lambda: spb.RectangularPlaneForcingGrid(grid_dim=3, rigid_body=body, num_forcing_points_along_length=kw.get("n", 3)),
    }
    return table[grid_kind]()


def quaternion_rotation(ctx, name):
    """rotation matrix from a unit quaternion (|q| = 1 assumed); returns 3x3 nested list"""
    w, x, y, z = (ctx.scalar(f"{name}_q{i}", default=(1.0 if i == 0 else 0.0)) for i in range(4))
    ctx.assume(w * w + x * x + y * y + z * z == 1 if ctx.sym else abs(w * w + x * x + y * y + z * z - 1) < 1e-9)
    return [
        [1 - 2 * (y * y + z * z), 2 * (x * y - w * z), 2 * (x * z + w * y)],
        [2 * (x * y + w * z), 1 - 2 * (x * x + z * z), 2 * (y * z - w * x)],
        [2 * (x * z - w * y), 2 * (y * z + w * x), 1 - 2 * (x * x + y * y)],
    ]


def symbolise_body(ctx, body, kind, tag="b", directors="free", planar=False, planar_rod=False):
    """replace the state arrays of the body.  directors: 'free' (9 unconstrained entries per element:
    identities that hold for every matrix hold for every rotation) | 'quaternion' (orthonormal)."""
    n = body.n_elems if hasattr(body, "n_elems") else 1
    state = {}

    def put(attr, arr):
        cur = getattr(body, attr)
        if ctx.sym:
            setattr(body, attr, arr)
        else:
            # the state array is RE-BOUND to a new array object in both modes (what PyElastica's finalize() does when it
            # moves the state of every system into block memory): anything that cached a view of the old array is stale
            new = np.array(cur, copy=True)
            new[...] = arr
            setattr(body, attr, new)
        state[attr] = getattr(body, attr)

    nn = n + 1 if kind == "rod" else 1
    x, v, w = ctx.array(f"{tag}_x", (3, nn)), ctx.array(f"{tag}_v", (3, nn)), ctx.array(f"{tag}_w", (3, n))
    if planar_rod:
        # 2-D grids assume the rod lives and moves in the XY plane
        x[2] = x[2] * 0
        v[2] = v[2] * 0
    put("position_collection", x)
    put("velocity_collection", v)
    put("omega_collection", w)
    Q = ctx.zeros((3, 3, n))
    for k in range(n):
        if directors == "quaternion":
            R = quaternion_rotation(ctx, f"{tag}_e{k}")
            for i in range(3):
                for j in range(3):
                    Q[i, j, k] = R[i][j]
        elif planar:
            # rotation about z by (c, s); third director +-z
            c, s, d33 = ctx.scalar(f"{tag}_c{k}", default=1.0), ctx.scalar(f"{tag}_s{k}", default=0.0), ctx.scalar(f"{tag}_d33_{k}", default=1.0)
            Q[0, 0, k], Q[0, 1, k], Q[1, 0, k], Q[1, 1, k], Q[2, 2, k] = c, s, -s, c, d33
        else:
            Q[:, :, k] = ctx.array(f"{tag}_Q{k}", (3, 3), default=0.0)
            if not ctx.sym:
                Q[:, :, k] = Q[:, :, k] + np.eye(3) * (1.0 if not ctx.model else 0.0)
    put("director_collection", Q)
    if kind == "rod":
        r = ctx.array(f"{tag}_radius", (n,), default=0.05)
        m = ctx.array(f"{tag}_mass", (n + 1,), default=1.0)
        for v in list(np.asarray(r).reshape(-1)) + list(np.asarray(m).reshape(-1)):
            ctx.assume(v > 0)
        put("radius", r)
        put("mass", m)
        t = ctx.array(f"{tag}_t", (3, n))
        if planar_rod:
            t[2] = t[2] * 0
        put("tangents", t)
    return state


def symbolise_grid(ctx, grid, tag="g", sphere=False):
    from symsopht import graph

    def policy(path, arr):
        name = path.split(".")[-1].split("[")[0].split("<")[0]
        if name in KEEP_ARRAYS or arr.dtype.kind in "iu":
            return ("keep", None)
        if sphere and name == "global_frame_relative_position_field":
            return ("const", None)
        if name in RESULT_ARRAYS:
            return ("fresh", f"{tag}_{name}")
        if name in CONST_ARRAYS:
            return ("const", None)
        return None

    if ctx.sym:
        out = graph.symbolise(grid, policy, name="grid")
    else:
        graph.fill_numeric(grid, policy, lambda n, d: ctx._num(n, d), name="grid")
        out = {}
    # representation invariant of the edge grid: the z rows of its (3, n) force scratch arrays are
    # zero-initialised by the constructor and never written afterwards (only rows [:grid_dim] are assigned)
    for nm in ("element_forces_left_edge_nodes", "element_forces_right_edge_nodes"):
        if hasattr(grid, nm):
            a = getattr(grid, nm)
            a[2] = a[2] * 0
    return out


def cross(a, b):
    return [a[1] * b[2] - a[2] * b[1], a[2] * b[0] - a[0] * b[2], a[0] * b[1] - a[1] * b[0]]
