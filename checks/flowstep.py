"""Shared harness: build a real flow simulator for a configuration, make its state / scratch arrays
symbolic (or fill them from a model), run the real time_step with cut points around the two stages
that involve concrete floating-point tables (boundary-zone ramp, Poisson solve), and expose every
intermediate the checks C01 / C04(c) / C14 / C15(b) / C18 need."""
import os
import sys
import warnings

sys.path.insert(0, os.path.dirname(os.path.dirname(os.path.abspath(__file__))))
import numpy as np  # noqa: E402

from checks.common import sopht_modules  # noqa: E402

STATE = {"vorticity_field": "w", "primary_field": "w", "velocity_field": "u", "eul_grid_forcing_field": "f"}
CONST_NAMES = ("position_field", "x_grid_field", "y_grid_field", "z_grid_field", "fourier_greens_function_times_dx", "eig_vecs", "inv_of_eig_vecs", "tranpose_of", "inv_eig_val_matrix")


def build_sim(ctx, cfg):
    _, _, sps, _ = sopht_modules()
    kind = cfg["kind"]
    shape = tuple(cfg["shape"])
    common = dict(x_range=cfg.get("x_range", 1.0), kinematic_viscosity=0.1, real_t=ctx.real_t, num_threads=cfg.get("threads", 2))
    with warnings.catch_warnings():
        warnings.simplefilter("ignore")
        if kind == "ns2d":
            sim = sps.UnboundedNavierStokesFlowSimulator2D(grid_size=shape, with_forcing=cfg["forcing"], with_free_stream_flow=cfg["free_stream"], penalty_zone_width=cfg["width"], **common)
        elif kind == "ns3d":
            kw = {}
            if cfg.get("filter"):
                kw = dict(filter_vorticity=True, filter_setting_dict={"order": cfg["filter"][1], "type": cfg["filter"][0]})
            sim = sps.UnboundedNavierStokesFlowSimulator3D(grid_size=shape, with_forcing=cfg["forcing"], with_free_stream_flow=cfg["free_stream"], penalty_zone_width=cfg["width"],
                                                           poisson_solver_type=cfg.get("solver", "greens_function_convolution"), **kw, **common)
        else:
            sim = sps.PassiveTransportFlowSimulator(grid_dim=len(shape), grid_size=shape, field_type=cfg.get("field_type", "scalar"), **common)
    return sim


def _real_eigendata(sim):
    """fast-diagonalisation tables come back complex with zero imaginary part (C11): use the real part"""
    ps = getattr(sim, "_unbounded_poisson_solver", None)
    if ps is None or not type(ps).__name__.startswith("FastDiag"):
        return
    for k, v in list(ps.__dict__.items()):
        if isinstance(v, np.ndarray) and np.iscomplexobj(v):
            if v.size and float(np.max(np.abs(v.imag))) != 0.0:
                raise RuntimeError(f"eigen-data {k} has non-zero imaginary part")
            setattr(ps, k, np.ascontiguousarray(v.real))


def symbolise_sim(ctx, sim, tag="", trivial_fft=False):
    """state -> fresh variables w/u/f, every other work array -> fresh scratch variables, tables -> exact constants"""
    from symsopht import graph, stubs_fft

    classified = {}

    def policy(path, arr):
        name = path.split(".")[-1].split("<")[-1].rstrip(">")
        base = path.split(".")[-1]
        if arr.dtype.kind in "iu":
            return ("keep", None)
        for cn in CONST_NAMES:
            if cn in path.split("obj", 1)[-1]:
                classified[path] = "const"
                return ("const", None)
        if base in STATE:
            classified[path] = "state"
            return ("fresh", tag + STATE[base])
        classified[path] = "scratch"
        clean = "".join(ch if ch.isalnum() else "_" for ch in path.split("obj", 1)[-1])
        return ("fresh", tag + "scr" + clean)

    _real_eigendata(sim)
    if ctx.sym:
        graph.symbolise(sim, policy, name="obj")
        ps = getattr(sim, "_unbounded_poisson_solver", None)
        if ps is not None and hasattr(ps, "rfft"):
            if trivial_fft:
                # memory-extent studies (C15b): the transforms are not pystencils kernels; skip their arithmetic
                ps.rfft = lambda input_array=None, output_array=None, **k: output_array
                ps.irfft = lambda input_array=None, output_array=None, **k: output_array
            else:
                ps.rfft = stubs_fft.RFFTStub()
                ps.irfft = stubs_fft.IRFFTStub()
        sim.real_t = lambda x: x
    else:
        graph.fill_numeric(sim, policy, lambda n, d: ctx._num(n, d), name="obj")
    return classified


class Cut:
    """wraps an instance-attribute callable of the simulator: records the array it is about to consume and (sym mode)
    replaces its content by fresh bounded variables, so that the stages after the cut are linear in them"""

    def __init__(self, ctx, sim, attr, field_kw, name, bounded=True):
        self.ctx, self.name, self.field_kw = ctx, name, field_kw
        self.inner = getattr(sim, attr)
        self.pre = None
        self.cut = None
        self.bounded = bounded
        setattr(sim, attr, self)

    def __call__(self, *a, **k):
        from checks.common import bound_vars

        arr = k.get(self.field_kw)
        if arr is None:
            arr = a[0] if self.field_kw != "rhs" else a[1]
        self.pre = arr.copy()
        if self.ctx.sym:
            new = self.ctx.array(self.name, arr.shape)
            if self.bounded:
                bound_vars(self.ctx, new)
            arr[...] = new
        elif any(k.startswith(self.name + "[") for k in self.ctx.model):
            # replay of a post-cut claim: feed the model's cut values to the real stage
            arr[...] = self.ctx.array(self.name, arr.shape)
        self.cut = arr.copy()
        return self.inner(*a, **k)


def run_step(ctx, cfg, tag="", cuts=True, stub_poisson=False, init=None, trivial_fft=False, U=None, scalar_tag=None, step=True, cut_tag=None):
    """returns dict with sim, initial state copies, cut records and scalars"""
    sim = build_sim(ctx, cfg)
    classified = symbolise_sim(ctx, sim, tag, trivial_fft=trivial_fft)
    dim = len(cfg["shape"])
    st = tag if scalar_tag is None else scalar_tag
    dt = ctx.scalar(st + "dt", positive=True, default=0.01)
    nu = ctx.scalar(st + "nu", positive=True, default=0.1)
    sim.kinematic_viscosity = nu
    rho = 1.0
    if cfg["kind"] != "passive":
        rho = ctx.scalar(st + "rho", positive=True, default=1.5)
        sim.flow_density = rho
    t0 = ctx.scalar(st + "t0", default=0.25)
    sim.time = t0
    if U is None:
        U = [ctx.scalar(f"{st}U{a}", default=0.3 * (a + 1)) for a in range(dim)] if cfg.get("free_stream") else [0.0] * dim
    out = dict(sim=sim, dt=dt, nu=nu, rho=rho, t0=t0, U=U, classified=classified, dx=sim.dx, dim=dim)
    wname = "primary_field" if cfg["kind"] == "passive" else "vorticity_field"
    if init is not None:
        init(sim)
    out["w0"] = getattr(sim, wname).copy()
    out["u0"] = sim.velocity_field.copy()
    out["f0"] = sim.eul_grid_forcing_field.copy() if cfg.get("forcing") else None
    if cfg["kind"] != "passive" and stub_poisson and not cuts:
        def fake2(solution_vector_field=None, rhs_vector_field=None, solution_field=None, rhs_field=None):
            tgt = solution_vector_field if solution_vector_field is not None else solution_field
            if ctx.sym:
                tgt[...] = ctx.array(tag + "stubpsi", tgt.shape)

        sim._unbounded_poisson_solver.vector_field_solve = fake2
        sim._unbounded_poisson_solver.solve = fake2
    ctag = tag if cut_tag is None else cut_tag
    if cfg["kind"] != "passive" and cuts:
        out["cut_pen"] = Cut(ctx, sim, "_penalise_field_towards_boundary", "field" if dim == 2 else "vector_field", ctag + "cutw")
        ps = sim._unbounded_poisson_solver
        if dim == 2:
            out["cut_psi"] = Cut(ctx, sim, "_curl", "field", ctag + "cutpsi")
        else:
            out["cut_psi"] = Cut(ctx, sim, "_curl", "field", ctag + "cutpsi")
        if stub_poisson:
            # Poisson stage cut out entirely (wide-zone 3-D configurations): the solve writes fresh variables
            def fake(solution_vector_field=None, rhs_vector_field=None, solution_field=None, rhs_field=None):
                tgt = solution_vector_field if solution_vector_field is not None else solution_field
                if ctx.sym:
                    tgt[...] = ctx.array(tag + "stubpsi", tgt.shape)

            ps.vector_field_solve = fake
            ps.solve = fake
    if not step:
        return out
    if cfg.get("free_stream"):
        sim.time_step(dt, free_stream_velocity=U)
    else:
        sim.time_step(dt)
    out["w1"] = getattr(sim, wname)
    out["u1"] = sim.velocity_field
    return out
