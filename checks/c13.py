#!/usr/bin/env python
"""C13 - every grid kernel computes its documented formula on its documented region only.

(a) values + frame, bounded shapes: every public generator of eulerian_grid_ops (every option
    combination) is called on symbolic arrays whose prior contents are fresh variables; each cell of
    every output must equal the closed form of ref/kernels_ref.py, each other cell (and every input
    cell, and every parent cell outside a strided view) must still be its prior value.
(b) region for ALL sizes: loop bounds of the backend IR as linear expressions in the symbolic sizes
    are compared with the documented region by a QF_LIA query (sizes are integer solver variables).
"""
import itertools
import os
import sys

sys.path.insert(0, os.path.dirname(os.path.dirname(os.path.abspath(__file__))))
import numpy as np  # noqa: E402

from checks.common import Check, scenario, sopht_modules  # noqa: E402
from ref import kernels_ref as R  # noqa: E402

CASES = {}


def case(name, min_shape, nd, options=None):
    def deco(fn):
        CASES[name] = dict(fn=fn, min_shape=min_shape, nd=nd, options=options or [{}])
        return fn

    return deco


class Arrays:
    """creates kernel arguments, optionally as strided views of larger parents, and remembers priors"""

    def __init__(self, ctx, view):
        self.ctx = ctx
        self.view = view
        self.items = {}

    def new(self, name, shape, role):
        ctx = self.ctx
        nd = len(shape)
        if self.view == "contiguous":
            parent = ctx.array(name, shape)
            arr = parent
        elif self.view == "strided":
            # view = parent[1:-1, ::2] pattern on the trailing two axes, offset on the leading ones
            pshape = list(shape)
            sl = [slice(None)] * nd
            pshape[-1] = 2 * shape[-1]
            sl[-1] = slice(1, None, 2)
            if nd >= 2:
                pshape[-2] = shape[-2] + 2
                sl[-2] = slice(1, -1)
            parent = ctx.array(name, tuple(pshape))
            arr = parent[tuple(sl)]
        elif self.view == "reversed":
            parent = ctx.array(name, shape)
            sl = [slice(None)] * nd
            sl[-1] = slice(None, None, -1)
            arr = parent[tuple(sl)]
        elif self.view == "interior":
            # interior window of an allocation padded by one cell on EVERY axis (also the component axis): no two axes of
            # the view can be merged without a copy
            parent = ctx.array(name, tuple(n + 2 for n in shape))
            arr = parent[tuple(slice(1, -1) for _ in shape)]
        elif self.view == "rolled":
            # first axis stored last in memory (component-last storage exposed through moveaxis; Fortran order in 2-D)
            parent = ctx.array(name, tuple(shape[1:]) + (shape[0],)) if nd >= 2 else ctx.array(name, shape)
            arr = np.moveaxis(parent, -1, 0) if nd >= 2 else parent
        else:
            raise ValueError(self.view)
        self.items[name] = dict(arr=arr, parent=parent, prior=arr.copy(), parent_prior=parent.copy(), role=role)
        return arr

    def prior(self, name):
        return self.items[name]["prior"]

    def check(self, expected):
        ctx = self.ctx
        for name, it in self.items.items():
            if it["role"] == "in":
                ctx.same_array(f"input_unchanged:{name}", it["arr"], it["prior"])
            else:
                ctx.eq_array(f"value:{name}", it["arr"], expected[name])
            if it["parent"] is not it["arr"] and self.view in ("strided", "interior"):
                # parent cells outside the view keep their sentinels
                mask = np.ones(it["parent"].shape, dtype=bool)
                nd = it["parent"].ndim
                if self.view == "interior":
                    sl = [slice(1, -1)] * nd
                else:
                    sl = [slice(None)] * nd
                    sl[-1] = slice(1, None, 2)
                    if nd >= 2:
                        sl[-2] = slice(1, -1)
                mask[tuple(sl)] = False
                cells = [tuple(int(v) for v in c) for c in np.argwhere(mask)]
                ctx.eq_array(f"outside_view_unchanged:{name}", it["parent"], it["parent_prior"], cells=cells)


def _vs(nd, shape):
    return (nd, *shape)


# ======================================================================================= cases
def _gen(name):
    _, spne, _, _ = sopht_modules()
    return getattr(spne, name)


@case("gen_elementwise_sum_pyst_kernel_2d", (1, 1), 2, [{"field_type": "scalar"}, {"field_type": "vector"}])
@case("gen_elementwise_sum_pyst_kernel_3d", (1, 1, 1), 3, [{"field_type": "scalar"}, {"field_type": "vector"}])
def _sum(ctx, A, gen, shape, nd, field_type):
    k = gen(real_t=ctx.real_t, num_threads=False, field_type=field_type)
    s = shape if field_type == "scalar" else _vs(nd, shape)
    out, a, b = A.new("sum_field", s, "out"), A.new("field_1", s, "in"), A.new("field_2", s, "in")
    k(sum_field=out, field_1=a, field_2=b)
    return {"sum_field": A.prior("field_1") + A.prior("field_2")}


@case("gen_elementwise_saxpby_pyst_kernel_2d", (1, 1), 2, [{"field_type": "scalar"}, {"field_type": "vector"}])
@case("gen_elementwise_saxpby_pyst_kernel_3d", (1, 1, 1), 3, [{"field_type": "scalar"}, {"field_type": "vector"}])
def _saxpby(ctx, A, gen, shape, nd, field_type):
    k = gen(real_t=ctx.real_t, num_threads=False, field_type=field_type)
    s = shape if field_type == "scalar" else _vs(nd, shape)
    out, a, b = A.new("sum_field", s, "out"), A.new("field_1", s, "in"), A.new("field_2", s, "in")
    pa, pb = ctx.scalar("field_1_prefac"), ctx.scalar("field_2_prefac")
    k(sum_field=out, field_1=a, field_2=b, field_1_prefac=ctx.cast(pa), field_2_prefac=ctx.cast(pb))
    return {"sum_field": pa * A.prior("field_1") + pb * A.prior("field_2")}


@case("gen_elementwise_copy_pyst_kernel_2d", (1, 1), 2)
@case("gen_elementwise_copy_pyst_kernel_3d", (1, 1, 1), 3)
def _copy(ctx, A, gen, shape, nd):
    k = gen(real_t=ctx.real_t, num_threads=False)
    out, a = A.new("field", shape, "out"), A.new("rhs_field", shape, "in")
    k(field=out, rhs_field=a)
    return {"field": A.prior("rhs_field")}


@case("gen_set_fixed_val_pyst_kernel_2d", (1, 1), 2, [{"field_type": "scalar"}, {"field_type": "vector"}])
@case("gen_set_fixed_val_pyst_kernel_3d", (1, 1, 1), 3, [{"field_type": "scalar"}, {"field_type": "vector"}])
def _setval(ctx, A, gen, shape, nd, field_type):
    k = gen(real_t=ctx.real_t, num_threads=False, field_type=field_type)
    if field_type == "scalar":
        out = A.new("field", shape, "out")
        v = ctx.scalar("fixed_val")
        k(field=out, fixed_val=ctx.cast(v))
        return {"field": A.prior("field") * 0 + v}
    out = A.new("vector_field", _vs(nd, shape), "out")
    vals = [ctx.scalar(f"fixed_val_{i}") for i in range(nd)]
    k(vector_field=out, fixed_vals=[ctx.cast(v) for v in vals])
    exp = A.prior("vector_field") * 0
    for i in range(nd):
        exp[i] = exp[i] + vals[i]
    return {"vector_field": exp}


@case("gen_add_fixed_val_pyst_kernel_2d", (1, 1), 2, [{"field_type": "scalar"}, {"field_type": "vector"}])
@case("gen_add_fixed_val_pyst_kernel_3d", (1, 1, 1), 3, [{"field_type": "scalar"}, {"field_type": "vector"}])
def _addval(ctx, A, gen, shape, nd, field_type):
    k = gen(real_t=ctx.real_t, num_threads=False, field_type=field_type)
    if field_type == "scalar":
        out, a = A.new("sum_field", shape, "out"), A.new("field", shape, "in")
        v = ctx.scalar("fixed_val")
        k(sum_field=out, field=a, fixed_val=ctx.cast(v))
        return {"sum_field": A.prior("field") + v}
    out, a = A.new("sum_field", _vs(nd, shape), "out"), A.new("vector_field", _vs(nd, shape), "in")
    vals = [ctx.scalar(f"fixed_val_{i}") for i in range(nd)]
    k(sum_field=out, vector_field=a, fixed_vals=[ctx.cast(v) for v in vals])
    exp = A.prior("vector_field").copy()
    for i in range(nd):
        exp[i] = exp[i] + vals[i]
    return {"sum_field": exp}


@case("gen_set_fixed_val_at_boundaries_pyst_kernel_2d", (1, 1), 2, [{"field_type": ft, "width": w} for ft in ("scalar", "vector") for w in (1, 2, 3)])
@case("gen_set_fixed_val_at_boundaries_pyst_kernel_3d", (1, 1, 1), 3, [{"field_type": ft, "width": w} for ft in ("scalar", "vector") for w in (1, 2)])
def _setbnd(ctx, A, gen, shape, nd, field_type, width):
    k = gen(real_t=ctx.real_t, width=width, num_threads=False, field_type=field_type)
    if field_type == "scalar":
        out = A.new("field", shape, "out")
        v = ctx.scalar("fixed_val")
        k(field=out, fixed_val=ctx.cast(v))
        exp = A.prior("field").copy()
        R.set_ring(exp, nd, width, v)
        return {"field": exp}
    out = A.new("vector_field", _vs(nd, shape), "out")
    vals = [ctx.scalar(f"fixed_val_{i}") for i in range(nd)]
    k(vector_field=out, fixed_vals=[ctx.cast(v) for v in vals])
    exp = A.prior("vector_field").copy()
    for i in range(nd):
        R.set_ring(exp[i], nd, width, vals[i])
    return {"vector_field": exp}


def _cplx(ctx, A, name, shape, role):
    """complex field as an array with trailing (re, im) pair; .real/.imag are strided views like numpy's"""
    a = A.new(name, (*shape, 2), role)
    return a


class _C:
    """minimal complex-array stand-in exposing .real/.imag views (what the wrapper uses)"""

    def __init__(self, a):
        self.real = a[..., 0]
        self.imag = a[..., 1]


@case("gen_elementwise_complex_product_pyst_kernel_2d", (1, 1), 2)
@case("gen_elementwise_complex_product_pyst_kernel_3d", (1, 1, 1), 3)
def _cprod(ctx, A, gen, shape, nd):
    k = gen(real_t=ctx.real_t, num_threads=False)
    if ctx.sym:
        p, a, b = _cplx(ctx, A, "product_field", shape, "out"), _cplx(ctx, A, "field_1", shape, "in"), _cplx(ctx, A, "field_2", shape, "in")
        k(product_field=_C(p), field_1=_C(a), field_2=_C(b))
    else:
        p, a, b = _cplx(ctx, A, "product_field", shape, "out"), _cplx(ctx, A, "field_1", shape, "in"), _cplx(ctx, A, "field_2", shape, "in")
        ct = np.complex64 if ctx.real_t == np.float32 else np.complex128
        pc, ac, bc = (np.ascontiguousarray(x).view(ct)[..., 0] for x in (p, a, b))
        k(product_field=pc, field_1=ac, field_2=bc)
        p[..., 0], p[..., 1] = pc.real, pc.imag
    a0, b0 = A.prior("field_1"), A.prior("field_2")
    exp = A.prior("product_field").copy()
    exp[..., 0] = a0[..., 0] * b0[..., 0] - a0[..., 1] * b0[..., 1]
    exp[..., 1] = a0[..., 0] * b0[..., 1] + a0[..., 1] * b0[..., 0]
    return {"product_field": exp}


@case("gen_diffusion_flux_pyst_kernel_2d", (3, 3), 2, [{"reset_ghost_zone": True}, {"reset_ghost_zone": False}])
def _dflux2(ctx, A, gen, shape, nd, reset_ghost_zone):
    k = gen(real_t=ctx.real_t, num_threads=False, reset_ghost_zone=reset_ghost_zone)
    out, f = A.new("diffusion_flux", shape, "out"), A.new("field", shape, "in")
    p = ctx.scalar("prefactor")
    k(diffusion_flux=out, field=f, prefactor=ctx.cast(p))
    return {"diffusion_flux": R.diffusion_flux(A.prior("diffusion_flux"), A.prior("field"), p, 2, reset_ghost_zone)}


@case("gen_diffusion_flux_pyst_kernel_3d", (3, 3, 3), 3, [{"reset_ghost_zone": r, "field_type": ft} for r in (True, False) for ft in ("scalar", "vector")])
def _dflux3(ctx, A, gen, shape, nd, reset_ghost_zone, field_type):
    k = gen(real_t=ctx.real_t, num_threads=False, reset_ghost_zone=reset_ghost_zone, field_type=field_type)
    p = ctx.scalar("prefactor")
    if field_type == "scalar":
        out, f = A.new("diffusion_flux", shape, "out"), A.new("field", shape, "in")
        k(diffusion_flux=out, field=f, prefactor=ctx.cast(p))
        return {"diffusion_flux": R.diffusion_flux(A.prior("diffusion_flux"), A.prior("field"), p, 3, reset_ghost_zone)}
    out, f = A.new("vector_field_diffusion_flux", _vs(3, shape), "out"), A.new("vector_field", _vs(3, shape), "in")
    k(vector_field_diffusion_flux=out, vector_field=f, prefactor=ctx.cast(p))
    exp = A.prior("vector_field_diffusion_flux").copy()
    for i in range(3):
        exp[i] = R.diffusion_flux(A.prior("vector_field_diffusion_flux")[i], A.prior("vector_field")[i], p, 3, reset_ghost_zone)
    return {"vector_field_diffusion_flux": exp}


@case("gen_diffusion_timestep_euler_forward_pyst_kernel_2d", (3, 3), 2)
def _dstep2(ctx, A, gen, shape, nd):
    k = gen(real_t=ctx.real_t, num_threads=False)
    f, fl = A.new("field", shape, "out"), A.new("diffusion_flux", shape, "out")
    p = ctx.scalar("nu_dt_by_dx2")
    k(field=f, diffusion_flux=fl, nu_dt_by_dx2=ctx.cast(p))
    nf, flux = R.diffusion_timestep(A.prior("field"), p, 2)
    return {"field": nf, "diffusion_flux": flux}


@case("gen_diffusion_timestep_euler_forward_pyst_kernel_3d", (3, 3, 3), 3, [{"field_type": "scalar"}, {"field_type": "vector"}])
def _dstep3(ctx, A, gen, shape, nd, field_type):
    k = gen(real_t=ctx.real_t, num_threads=False, field_type=field_type)
    p = ctx.scalar("nu_dt_by_dx2")
    fl = A.new("diffusion_flux", shape, "out")
    if field_type == "scalar":
        f = A.new("field", shape, "out")
        k(field=f, diffusion_flux=fl, nu_dt_by_dx2=ctx.cast(p))
        nf, flux = R.diffusion_timestep(A.prior("field"), p, 3)
        return {"field": nf, "diffusion_flux": flux}
    f = A.new("vector_field", _vs(3, shape), "out")
    k(vector_field=f, diffusion_flux=fl, nu_dt_by_dx2=ctx.cast(p))
    exp = A.prior("vector_field").copy()
    flux = None
    for i in range(3):
        exp[i], flux = R.diffusion_timestep(A.prior("vector_field")[i], p, 3)
    return {"vector_field": exp, "diffusion_flux": flux}  # buffer holds the flux of the last (z) component


@case("gen_inplane_field_curl_pyst_kernel_2d", (3, 3), 2)
def _incurl(ctx, A, gen, shape, nd):
    k = gen(real_t=ctx.real_t, num_threads=False)
    out, f = A.new("curl", shape, "out"), A.new("field", _vs(2, shape), "in")
    p = ctx.scalar("prefactor")
    k(curl=out, field=f, prefactor=ctx.cast(p))
    return {"curl": R.inplane_curl_2d(A.prior("curl"), A.prior("field"), p)}


@case("gen_outplane_field_curl_pyst_kernel_2d", (3, 3), 2, [{"reset_ghost_zone": True}, {"reset_ghost_zone": False}])
def _outcurl(ctx, A, gen, shape, nd, reset_ghost_zone):
    k = gen(real_t=ctx.real_t, num_threads=False, reset_ghost_zone=reset_ghost_zone)
    out, f = A.new("curl", _vs(2, shape), "out"), A.new("field", shape, "in")
    p = ctx.scalar("prefactor")
    k(curl=out, field=f, prefactor=ctx.cast(p))
    return {"curl": R.outplane_curl_2d(A.prior("curl"), A.prior("field"), p, reset_ghost_zone)}


@case("gen_curl_pyst_kernel_3d", (3, 3, 3), 3, [{"reset_ghost_zone": True}, {"reset_ghost_zone": False}])
def _curl3(ctx, A, gen, shape, nd, reset_ghost_zone):
    k = gen(real_t=ctx.real_t, num_threads=False, reset_ghost_zone=reset_ghost_zone)
    out, f = A.new("curl", _vs(3, shape), "out"), A.new("field", _vs(3, shape), "in")
    p = ctx.scalar("prefactor")
    k(curl=out, field=f, prefactor=ctx.cast(p))
    return {"curl": R.curl_3d(A.prior("curl"), A.prior("field"), p, reset_ghost_zone)}


@case("gen_divergence_pyst_kernel_3d", (3, 3, 3), 3, [{"reset_ghost_zone": True}, {"reset_ghost_zone": False}])
def _div3(ctx, A, gen, shape, nd, reset_ghost_zone):
    k = gen(real_t=ctx.real_t, num_threads=False, reset_ghost_zone=reset_ghost_zone)
    out, f = A.new("divergence", shape, "out"), A.new("field", _vs(3, shape), "in")
    p = ctx.scalar("inv_dx")
    k(divergence=out, field=f, inv_dx=ctx.cast(p))
    return {"divergence": R.divergence_3d(A.prior("divergence"), A.prior("field"), p, reset_ghost_zone)}


@case("gen_update_vorticity_from_velocity_forcing_pyst_kernel_2d", (3, 3), 2)
def _upd2(ctx, A, gen, shape, nd):
    k = gen(real_t=ctx.real_t, num_threads=False)
    w, f = A.new("vorticity_field", shape, "out"), A.new("velocity_forcing_field", _vs(2, shape), "in")
    p = ctx.scalar("prefactor")
    k(vorticity_field=w, velocity_forcing_field=f, prefactor=ctx.cast(p))
    return {"vorticity_field": R.update_vorticity_from_forcing_2d(A.prior("vorticity_field"), A.prior("velocity_forcing_field"), p)}


@case("gen_update_vorticity_from_velocity_forcing_pyst_kernel_3d", (3, 3, 3), 3)
def _upd3(ctx, A, gen, shape, nd):
    k = gen(real_t=ctx.real_t, num_threads=False)
    w, f = A.new("vorticity_field", _vs(3, shape), "out"), A.new("velocity_forcing_field", _vs(3, shape), "in")
    p = ctx.scalar("prefactor")
    k(vorticity_field=w, velocity_forcing_field=f, prefactor=ctx.cast(p))
    return {"vorticity_field": R.update_vorticity_from_forcing_3d(A.prior("vorticity_field"), A.prior("velocity_forcing_field"), p)}


@case("gen_update_vorticity_from_penalised_velocity_pyst_kernel_2d", (3, 3), 2)
def _updpen2(ctx, A, gen, shape, nd):
    k = gen(real_t=ctx.real_t, num_threads=False)
    w, up, u = A.new("vorticity_field", shape, "out"), A.new("penalised_velocity_field", _vs(2, shape), "in"), A.new("velocity_field", _vs(2, shape), "in")
    p = ctx.scalar("prefactor")
    k(vorticity_field=w, penalised_velocity_field=up, velocity_field=u, prefactor=ctx.cast(p))
    return {"vorticity_field": R.update_vorticity_from_forcing_2d(A.prior("vorticity_field"), A.prior("penalised_velocity_field") - A.prior("velocity_field"), p)}


@case("gen_update_vorticity_from_penalised_velocity_pyst_kernel_3d", (3, 3, 3), 3)
def _updpen3(ctx, A, gen, shape, nd):
    k = gen(real_t=ctx.real_t, num_threads=False)
    w, up, u = A.new("vorticity_field", _vs(3, shape), "out"), A.new("penalised_velocity_field", _vs(3, shape), "in"), A.new("velocity_field", _vs(3, shape), "in")
    p = ctx.scalar("prefactor")
    k(vorticity_field=w, penalised_velocity_field=up, velocity_field=u, prefactor=ctx.cast(p))
    return {"vorticity_field": R.update_vorticity_from_forcing_3d(A.prior("vorticity_field"), A.prior("penalised_velocity_field") - A.prior("velocity_field"), p)}


@case("gen_elementwise_cross_product_pyst_kernel_3d", (1, 1, 1), 3)
def _cross(ctx, A, gen, shape, nd):
    k = gen(real_t=ctx.real_t, num_threads=False)
    out, a, b = A.new("result_field", _vs(3, shape), "out"), A.new("field_1", _vs(3, shape), "in"), A.new("field_2", _vs(3, shape), "in")
    k(result_field=out, field_1=a, field_2=b)
    c = R.cross_3d(A.prior("field_1"), A.prior("field_2"))
    exp = A.prior("result_field").copy()
    for i in range(3):
        exp[i] = c[i]
    return {"result_field": exp}


@case("gen_vorticity_stretching_flux_pyst_kernel_3d", (3, 3, 3), 3)
def _strflux(ctx, A, gen, shape, nd):
    k = gen(real_t=ctx.real_t, num_threads=False)
    out, w, u = A.new("vorticity_stretching_flux_field", _vs(3, shape), "out"), A.new("vorticity_field", _vs(3, shape), "in"), A.new("velocity_field", _vs(3, shape), "in")
    p = ctx.scalar("prefactor")
    k(vorticity_stretching_flux_field=out, vorticity_field=w, velocity_field=u, prefactor=ctx.cast(p))
    return {"vorticity_stretching_flux_field": R.stretching_flux_3d(A.prior("vorticity_stretching_flux_field"), A.prior("vorticity_field"), A.prior("velocity_field"), p)}


@case("gen_vorticity_stretching_timestep_euler_forward_pyst_kernel_3d", (3, 3, 3), 3)
def _strstep(ctx, A, gen, shape, nd):
    k = gen(real_t=ctx.real_t, num_threads=False)
    w, u, fl = A.new("vorticity_field", _vs(3, shape), "out"), A.new("velocity_field", _vs(3, shape), "in"), A.new("vorticity_stretching_flux_field", _vs(3, shape), "out")
    p = ctx.scalar("dt_by_2_dx")
    k(vorticity_field=w, velocity_field=u, vorticity_stretching_flux_field=fl, dt_by_2_dx=ctx.cast(p))
    flux = R.stretching_flux_3d(A.prior("vorticity_stretching_flux_field"), A.prior("vorticity_field"), A.prior("velocity_field"), p)
    return {"vorticity_field": A.prior("vorticity_field") + flux, "vorticity_stretching_flux_field": flux}


@case("gen_vorticity_stretching_timestep_ssprk3_pyst_kernel_3d", (3, 3, 3), 3)
def _strrk3(ctx, A, gen, shape, nd):
    mid = A.new("midstep_buffer_vector_field", _vs(3, shape), "scratch")
    k = gen(real_t=ctx.real_t, midstep_buffer_vector_field=mid, num_threads=False)
    w, u, fl = A.new("vorticity_field", _vs(3, shape), "out"), A.new("velocity_field", _vs(3, shape), "in"), A.new("vorticity_stretching_flux_field", _vs(3, shape), "scratch")
    p = ctx.scalar("dt_by_2_dx")
    k(vorticity_field=w, velocity_field=u, vorticity_stretching_flux_field=fl, dt_by_2_dx=ctx.cast(p))
    w0, u0 = A.prior("vorticity_field"), A.prior("velocity_field")

    def L(x):
        return R.stretching_flux_3d(x * 0, x, u0, p)

    w1 = w0 + L(w0)
    w2 = (3 / 4) * w0 + (1 / 4) * (w1 + L(w1))
    w3 = (1 / 3) * w0 + (2 / 3) * (w2 + L(w2))
    return {"vorticity_field": w3}


@case("gen_advection_flux_conservative_eno3_pyst_kernel_2d", (5, 5), 2)
@case("gen_advection_flux_conservative_eno3_pyst_kernel_3d", (5, 5, 5), 3)
def _advflux(ctx, A, gen, shape, nd):
    k = gen(real_t=ctx.real_t, num_threads=False)
    fl, f, u = A.new("advection_flux", shape, "out"), A.new("field", shape, "in"), A.new("velocity", _vs(nd, shape), "in")
    p = ctx.scalar("inv_dx")
    k(advection_flux=fl, field=f, velocity=u, inv_dx=ctx.cast(p))
    return {"advection_flux": R.advection_flux(A.prior("advection_flux"), A.prior("field"), A.prior("velocity"), p, nd)}


@case("gen_advection_timestep_euler_forward_conservative_eno3_pyst_kernel_2d", (5, 5), 2)
def _advstep2(ctx, A, gen, shape, nd):
    k = gen(real_t=ctx.real_t, num_threads=False)
    f, fl, u = A.new("field", shape, "out"), A.new("advection_flux", shape, "out"), A.new("velocity", _vs(2, shape), "in")
    p = ctx.scalar("dt_by_dx")
    k(field=f, advection_flux=fl, velocity=u, dt_by_dx=ctx.cast(p))
    nf, flux = R.advection_timestep(A.prior("field"), A.prior("velocity"), p, 2)
    return {"field": nf, "advection_flux": flux}


@case("gen_advection_timestep_euler_forward_conservative_eno3_pyst_kernel_3d", (5, 5, 5), 3, [{"field_type": "scalar"}, {"field_type": "vector"}])
def _advstep3(ctx, A, gen, shape, nd, field_type):
    k = gen(real_t=ctx.real_t, num_threads=False, field_type=field_type)
    fl, u = A.new("advection_flux", shape, "out"), A.new("velocity", _vs(3, shape), "in")
    p = ctx.scalar("dt_by_dx")
    if field_type == "scalar":
        f = A.new("field", shape, "out")
        k(field=f, advection_flux=fl, velocity=u, dt_by_dx=ctx.cast(p))
        nf, flux = R.advection_timestep(A.prior("field"), A.prior("velocity"), p, 3)
        return {"field": nf, "advection_flux": flux}
    f = A.new("vector_field", _vs(3, shape), "out")
    k(vector_field=f, advection_flux=fl, velocity=u, dt_by_dx=ctx.cast(p))
    exp = A.prior("vector_field").copy()
    flux = None
    for i in range(3):
        exp[i], flux = R.advection_timestep(A.prior("vector_field")[i], A.prior("velocity"), p, 3)
    return {"vector_field": exp, "advection_flux": flux}


@case("gen_brinkmann_penalise_pyst_kernel_2d", (1, 1), 2, [{"field_type": "scalar"}, {"field_type": "vector"}])
@case("gen_brinkmann_penalise_pyst_kernel_3d", (1, 1, 1), 3, [{"field_type": "scalar"}, {"field_type": "vector"}])
def _brink(ctx, A, gen, shape, nd, field_type):
    k = gen(real_t=ctx.real_t, num_threads=False, field_type=field_type)
    lam = ctx.scalar("penalty_factor", nonneg=True)
    chi = A.new("char_field", shape, "in")
    ctx.assume(_all_nonneg(ctx, chi))
    if field_type == "scalar":
        out, f, pf = A.new("penalised_field", shape, "out"), A.new("field", shape, "in"), A.new("penalty_field", shape, "in")
        k(penalised_field=out, field=f, char_field=chi, penalty_field=pf, penalty_factor=ctx.cast(lam))
        return {"penalised_field": R.brinkmann(A.prior("field"), A.prior("penalty_field"), A.prior("char_field"), lam)}
    s = _vs(nd, shape)
    out, f, pf = A.new("penalised_vector_field", s, "out"), A.new("vector_field", s, "in"), A.new("penalty_vector_field", s, "in")
    k(penalised_vector_field=out, penalty_factor=ctx.cast(lam), char_field=chi, penalty_vector_field=pf, vector_field=f)
    exp = A.prior("penalised_vector_field").copy()
    for i in range(nd):
        exp[i] = R.brinkmann(A.prior("vector_field")[i], A.prior("penalty_vector_field")[i], A.prior("char_field"), lam)
    return {"penalised_vector_field": exp}


@case("gen_brinkmann_penalise_vs_fixed_val_pyst_kernel_2d", (1, 1), 2, [{"field_type": "scalar"}, {"field_type": "vector"}])
def _brinkfixed(ctx, A, gen, shape, nd, field_type):
    k = gen(real_t=ctx.real_t, num_threads=False, field_type=field_type)
    lam = ctx.scalar("penalty_factor", nonneg=True)
    chi = A.new("char_field", shape, "in")
    ctx.assume(_all_nonneg(ctx, chi))
    if field_type == "scalar":
        out, f = A.new("penalised_field", shape, "out"), A.new("field", shape, "in")
        pv = ctx.scalar("penalty_val")
        k(penalised_field=out, field=f, char_field=chi, penalty_val=ctx.cast(pv), penalty_factor=ctx.cast(lam))
        return {"penalised_field": R.brinkmann(A.prior("field"), pv, A.prior("char_field"), lam)}
    s = _vs(nd, shape)
    out, f = A.new("penalised_vector_field", s, "out"), A.new("vector_field", s, "in")
    pv = [ctx.scalar(f"penalty_val_{i}") for i in range(nd)]
    k(penalised_vector_field=out, penalty_factor=ctx.cast(lam), char_field=chi, penalty_val=[ctx.cast(v) for v in pv], vector_field=f)
    exp = A.prior("penalised_vector_field").copy()
    for i in range(nd):
        exp[i] = R.brinkmann(A.prior("vector_field")[i], pv[i], A.prior("char_field"), lam)
    return {"penalised_vector_field": exp}


@case("gen_laplacian_filter_kernel_3d", (5, 5, 5), 3, [{"filter_order": o, "filter_type": t, "field_type": ft} for o in (1, 2) for t in ("multiplicative", "convolution") for ft in ("scalar", "vector")])
def _lapfilter(ctx, A, gen, shape, nd, filter_order, filter_type, field_type):
    # caller-owned scratch buffers: arbitrary contents when the kernel is generated AND when it is called
    b1, b2 = A.new("filter_flux_buffer", shape, "scratch"), A.new("field_buffer", shape, "scratch")
    k = gen(filter_order=filter_order, filter_flux_buffer=b1, field_buffer=b2, real_t=ctx.real_t, num_threads=False, field_type=field_type, filter_type=filter_type)
    b1[...] = ctx.array("flux_buffer_at_call", shape)
    b2[...] = ctx.array("field_buffer_at_call", shape)
    if field_type == "scalar":
        f = A.new("scalar_field", shape, "out")
        k(scalar_field=f)
        return {"scalar_field": R.laplacian_filter_scalar(A.prior("scalar_field"), filter_order, filter_type)}
    f = A.new("vector_field", _vs(3, shape), "out")
    k(vector_field=f)
    exp = A.prior("vector_field").copy()
    for i in range(3):
        exp[i] = R.laplacian_filter_scalar(A.prior("vector_field")[i], filter_order, filter_type)
    return {"vector_field": exp}


def _all_nonneg(ctx, arr):
    if ctx.sym:
        from symsopht import sym as S

        return S.And(*[v >= 0 for v in np.asarray(arr).reshape(-1)])
    return bool(np.all(np.asarray(arr) >= 0))


# ---------------------------------------------------------------------------------------------
@scenario
def kernel_case(ctx, name, shape, view, options):
    c = CASES[name]
    A = Arrays(ctx, view)
    gen = _gen(name)
    expected = c["fn"](ctx, A, gen, tuple(shape), c["nd"], **options)
    A.items = {k: v for k, v in A.items.items() if v["role"] != "scratch"}
    A.check(expected)


@scenario
def loop_region_all_sizes(ctx, generator):
    """(b) for ALL sizes: the loop bounds of the lowered IR, as linear integer expressions in the symbolic sizes, equal the
    documented region: [g, n-g) per axis with g = reach of the stencil (front-end assignments), or the documented
    iteration slice for the boundary operators.  One QF_LIA query per loop bound."""
    import z3

    from checks.c15 import _z3_check, instantiate_all_generators
    from checks.common import Claim
    from symsopht.iranalysis import IRInfo

    if not _GEN:
        _GEN.update(instantiate_all_generators())
    seen = set()
    for h in _GEN[generator]:
        key = (str(h.assignments), str(getattr(h.config, "iteration_slice", None)))
        if key in seen:
            continue
        seen.add(key)
        ir = IRInfo(h)
        g = ir.frontend_reach()
        isl = None
        try:
            isl = h.config.iteration_slice
        except Exception:
            isl = None
        for d, (ctr, lo, hi, step) in enumerate(ir.loops):
            n = ir.size(d)
            if n is None:
                n = z3.Int(f"_unused_size_{d}")  # bounds of this axis do not mention the size (e.g. slice [:width])
            if isl is not None and d < len(isl) and isinstance(isl[d], slice) and (isl[d].start is not None or isl[d].stop is not None):
                sl = isl[d]
                exp_lo = z3.IntVal(0) if sl.start is None else (n + sl.start if sl.start < 0 else z3.IntVal(sl.start))
                exp_hi = n if sl.stop is None else (n + sl.stop if sl.stop < 0 else z3.IntVal(sl.stop))
                doc = f"slice {sl.start}:{sl.stop}"
            elif isl is not None:
                exp_lo, exp_hi, doc = z3.IntVal(0), n, "full axis of a sliced kernel"
            else:
                exp_lo, exp_hi, doc = z3.IntVal(g), n - g, f"interior with ghost {g}"
            r, model, dt = _z3_check([n >= 0, z3.Or(lo != exp_lo, hi != exp_hi)], "loop_region")
            ctx.claims.append(Claim(f"loop_bounds_equal_documented_region:{h.name}:axis{d}:{doc}", r, model, time_=dt))
            if r != "unsat":
                ctx.nfail += 1
            if step != 1:
                ctx.claims.append(Claim(f"unit_step:{h.name}:axis{d}", "sat", {}))
                ctx.nfail += 1


@scenario
def interpreter_vs_compiled(ctx, name, options):
    """translator validation (guards the IR interpreter and the shim, decides nothing about SophT): random numeric inputs
    through the genuinely compiled kernel and through the interpreter must agree"""
    c = CASES[name]
    shape = tuple(m + 1 for m in c["min_shape"])
    res = []
    for mode in ("num", "interp"):
        from checks.common import Ctx

        rng = np.random.default_rng(7)
        if mode == "num":
            c2 = Ctx("num", model={}, real_t=ctx.real_t)
            c2._num = lambda n, d, rng=rng, memo={}: memo.setdefault(n, float(rng.uniform(0.1, 1.0)))
            A = Arrays(c2, "contiguous")
            c["fn"](c2, A, _gen(name), shape, c["nd"], **options)
            res.append({k: np.asarray(v["arr"], dtype=float).copy() for k, v in A.items.items() if v["role"] != "in"})
        else:
            from symsopht import sym as S
            from symsopht.symarray import constant, to_float

            c2 = Ctx("sym", real_t=ctx.real_t)
            memo = {}

            def arr(n, sh, default=0.0, rng=rng, memo=memo):
                out = np.empty(sh)
                for idx in np.ndindex(*sh):
                    out[idx] = memo.setdefault(n + "[" + ",".join(map(str, idx)) + "]", float(rng.uniform(0.1, 1.0)))
                return constant(out)

            c2.array = arr
            c2.scalar = lambda n, memo=memo, rng=rng, **k: S.lift(memo.setdefault(n, float(rng.uniform(0.1, 1.0))))
            c2.assume = lambda cond: None
            A = Arrays(c2, "contiguous")
            c["fn"](c2, A, _gen(name), shape, c["nd"], **options)
            res.append({k: to_float(v["arr"]) for k, v in A.items.items() if v["role"] != "in"})
    from checks.common import Claim

    worst = 0.0
    for k in res[0]:
        worst = max(worst, float(np.max(np.abs(res[0][k] - res[1][k]))) if res[0][k].size else 0.0)
    ok = worst <= (1e-10 if ctx.real_t == np.float64 else 1e-4)
    ctx.claims.append(Claim(f"interpreter_agrees_with_compiled_kernel(max_abs_diff={worst:.2e})", "unsat" if ok else "sat", {}))
    if not ok:
        ctx.nfail += 1
        raise RuntimeError(f"translator validation failed for {name} {options}: {worst}")


_GEN: dict = {}


def shapes_for(min_shape, quick):
    nd = len(min_shape)
    deltas = (0, 1) if quick else (0, 1, 2)
    out = []
    for d in itertools.product(deltas, repeat=nd):
        out.append(tuple(m + x for m, x in zip(min_shape, d)))
    if quick:
        # minimal, all +1, and two mixed non-cubic shapes
        keep = {out[0], out[-1]}
        mixed = [s for s in out if len(set(s)) > 1]
        keep.update(mixed[:1] + mixed[-1:])
        out = [s for s in out if s in keep]
    return out


def main():
    chk = Check("C13", "every public Eulerian-grid kernel vs closed form + frame condition (bounded symbolic execution of the backend IR + z3)",
                functions=sorted(CASES), files=[])
    chk.maybe_replay()
    _, spne, _, _ = sopht_modules()
    gens = sorted(n for n in spne.__all__ if n.startswith("gen_"))
    handled_elsewhere = {
        "gen_penalise_field_boundary_pyst_kernel_2d": "C19/C01 (needs grid coordinate fields; tolerance obligation)",
        "gen_penalise_field_boundary_pyst_kernel_3d": "C19/C01",
        "gen_char_func_from_level_set_via_sine_heaviside_pyst_kernel_2d": "C19 (transcendental axioms)",
        "gen_char_func_from_level_set_via_sine_heaviside_pyst_kernel_3d": "C19",
    }
    missing = [g for g in gens if g not in CASES and g not in handled_elsewhere]
    if missing:
        chk.errors.append(f"generators without an oracle: {missing}")
    views = ["contiguous", "strided", "interior", "rolled"] if chk.quick else ["contiguous", "strided", "reversed", "interior", "rolled"]
    precisions = ["float64"] if chk.quick else ["float64", "float32"]
    n = 0
    for name in sorted(CASES):
        c = CASES[name]
        for opt in c["options"]:
            for sh in shapes_for(c["min_shape"], chk.quick):
                for view in views:
                    if view != "contiguous" and sh != shapes_for(c["min_shape"], True)[-1] and chk.quick:
                        continue
                    for rt in (precisions if not chk.quick else ["float64", "float32"]):
                        if rt == "float32" and (view != "contiguous" or sh != shapes_for(c["min_shape"], True)[-1]):
                            continue
                        chk.add(kernel_case, real_t=rt, name=name, shape=list(sh), view=view, options=opt)
                        n += 1
    # long thin grids: one axis beyond any plausible blocking / slab / size threshold (130 = 2*64+2 = 4*32+2), the others minimal
    for name in sorted(CASES):
        c = CASES[name]
        ms = c["min_shape"]
        for opt in (c["options"][:1] if chk.quick else c["options"]):
            for ax in range(len(ms)):
                sh = list(ms)
                sh[ax] = 130
                chk.add(kernel_case, real_t="float64", name=name, shape=sh, view="contiguous", options=opt)
                n += 1
    # generator history: the same generator called earlier in the process with other options / another precision, and
    # its kernel used on another shape, must not influence the kernel generated later (per-process caches, shared closures)
    for name in sorted(CASES):
        c = CASES[name]
        shs = shapes_for(c["min_shape"], True)
        for oi, opt in enumerate(c["options"]):
            others = [o for o in c["options"] if o != opt]
            earlier = [{"options": o, "shape": list(shs[0])} for o in (others[:2] if chk.quick else others[:4])]
            earlier.append({"_real_t": "float32", "shape": list(shs[0])})
            if oi and chk.quick and len(c["options"]) > 2 and oi != len(c["options"]) - 1:
                continue
            chk.add(kernel_case, real_t="float64", name=name, shape=list(shs[-1]), view="contiguous", options=opt, _earlier=earlier)
            n += 1
    from checks.c15 import instantiate_all_generators

    _GEN.update(instantiate_all_generators())
    for g in sorted(_GEN):
        chk.add(loop_region_all_sizes, generator=g)
    tv = sorted(CASES) if not chk.quick else ["gen_diffusion_flux_pyst_kernel_2d", "gen_advection_flux_conservative_eno3_pyst_kernel_3d", "gen_elementwise_saxpby_pyst_kernel_3d", "gen_curl_pyst_kernel_3d"]
    for name in tv:
        for opt in CASES[name]["options"][: (1 if chk.quick else None)]:
            chk.add(interpreter_vs_compiled, name=name, options=opt)
    chk.files = sorted({f"sopht/numeric/eulerian_grid_ops/{d}/{f}" for d in ("stencil_ops_2d", "stencil_ops_3d") for f in os.listdir(f"/repo/sopht/numeric/eulerian_grid_ops/{d}") if f.endswith(".py")})
    chk.bounds = [f"{len(CASES)} generators x option combinations; shapes from the minimal admissible size to +{1 if chk.quick else 2} per axis (non-cubic included)",
                  f"views: {views}", "long thin grids: each axis in turn 130 cells with the other axes minimal (size-gated blocking / slab code paths)", f"precisions: {precisions}", "all array contents, prior output contents and scalar parameters are solver variables", "generator history: each generator is also exercised after earlier calls of itself with other options / the other precision / another shape in the same process",
                  "(b) loop region of every kernel of every generator for ALL sizes (sizes are integer solver variables)", "translator validation of the IR interpreter against the compiled kernels (guard, not deciding)"]
    chk.outside = ["shapes beyond the enumerated ones (values/frame part)", "strides inside the generated C beyond the exercised views", "rounding"]
    chk.assumptions = ["exact real arithmetic", "Brinkmann kernels: penalty >= 0 and indicator >= 0 (denominator 1 + lambda*chi > 0)",
                       "generators covered by other checks: " + "; ".join(f"{k} -> {v}" for k, v in handled_elsewhere.items())]
    chk.extra["generators_in___all__"] = len(gens)
    chk.extra["generators_with_oracle_here"] = len([g for g in gens if g in CASES])
    chk.run()
    chk.finish()


if __name__ == "__main__":
    main()
