#!/usr/bin/env python
"""C01 - a flow time step realises the documented vorticity-velocity discretisation.

The real simulator (2D / 3D Navier-Stokes, passive transport) is constructed for a configuration,
its state, dt, viscosity, density, free stream and EVERY scratch buffer become solver variables, and
time_step() runs symbolically (pystencils kernels from the backend IR, FFTW replaced by the exact-DFT
stub).  The result is compared stage by stage with the independent reference of ref/flow_ref.py:
  A  vorticity before boundary damping  == forcing -> transport -> diffusion (-> filter)   [exact, z3 NRA]
  B  vorticity after boundary damping   ~= edge value x quarter-sine ramp                    [tolerance, cut point]
  C  stream function                    ~= free-space Green's convolution / Neumann problem  [tolerance]
  D  velocity                           == curl_h(stream function) + free stream             [exact, cut point]
plus clock += dt and forcing field == 0.  Cut points: the array consumed by B and by D is replaced
by fresh bounded variables (generalisation), which keeps every query local.
"""
import itertools
import os
import sys

sys.path.insert(0, os.path.dirname(os.path.dirname(os.path.abspath(__file__))))
import numpy as np  # noqa: E402

from checks.c11 import neumann_neg_laplacian  # noqa: E402
from checks.common import Check, Claim, close, close_array, scenario, sopht_modules  # noqa: E402
from checks.flowstep import run_step  # noqa: E402
from ref import flow_ref as FR  # noqa: E402

TOL = {"float64": 1e-11, "float32": 5e-5}  # absolute, cut variables in [-1,1]; measured exact-table worst cases 7e-15 / 3e-7 (evidence)


def _sum(a):
    acc = 0.0
    for v in np.asarray(a).reshape(-1):
        acc = acc + v
    return acc


def reference_pre_damping(cfg, r):
    dim, dx, dt, nu, rho = r["dim"], r["dx"], r["dt"], r["nu"], r["rho"]
    w = r["w0"]
    if cfg["kind"] == "passive":
        vector = cfg.get("field_type") == "vector"
        if vector:
            out = w.copy()
            for i in range(3):
                out[i], _ = FR.R.advection_timestep(w[i], r["u0"], dt / dx, dim)
            w = out
        else:
            w, _ = FR.R.advection_timestep(w, r["u0"], dt / dx, dim)
        return FR.stage_diffusion(w, nu, dt, dx, dim, vector)
    if cfg["forcing"]:
        w = FR.stage_forcing(w, r["f0"], dt, dx, rho, dim)
    if dim == 2:
        w = FR.stage_transport_2d(w, r["u0"], dt, dx)
        w = FR.stage_diffusion(w, nu, dt, dx, 2, False)
    else:
        w = FR.stage_transport_3d(w, r["u0"], dt, dx)
        w = FR.stage_diffusion(w, nu, dt, dx, 3, True)
        if cfg.get("filter"):
            w = FR.stage_filter(w, cfg["filter"][1], cfg["filter"][0])
    return w


@scenario
def flow_step(ctx, cfg):
    rt = "float32" if ctx.real_t == np.float32 else "float64"
    tol = TOL[rt]
    stub = bool(cfg.get("stub_poisson"))
    try:
        r = run_step(ctx, cfg, stub_poisson=stub)
    except (ValueError, IndexError, TypeError) as e:
        if not ctx.sym:
            raise
        # the real step raised on this configuration for arbitrary input
        ctx.note(f"time_step raised {type(e).__name__}: {e}")
        ctx.claims.append(Claim("returns_normally", "sat", {}))
        ctx.nfail += 1
        return
    sim, dim, dx = r["sim"], r["dim"], r["dx"]
    if not ctx.sym and ctx.target.startswith("returns_normally"):
        ctx.replay_result = (False, "time_step returned normally")
        return
    ctx.prefer = "smt"
    ctx.eq("clock_advances_by_dt", sim.time, r["t0"] + r["dt"])
    wA = reference_pre_damping(cfg, r)
    if cfg["kind"] == "passive":
        ctx.eq_array("A:field_after_advection_and_diffusion", r["w1"], wA)
        ctx.same_array("velocity_untouched", r["u1"], r["u0"])
        return
    if cfg["forcing"]:
        ctx.eq_array("forcing_field_is_zero_on_return", sim.eul_grid_forcing_field, r["f0"] * 0)
    ctx.eq_array("A:vorticity_before_boundary_damping", r["cut_pen"].pre, wA)
    vector = dim == 3
    wD = FR.stage_boundary_zone(r["cut_pen"].cut, cfg["width"], dim, vector)
    close_array(ctx, "B:vorticity_after_boundary_damping", r["w1"], wD, tol)
    psi_impl = r["cut_psi"].pre
    if not stub:
        if cfg.get("solver") == "fast_diagonalisation":
            n = int(np.prod(cfg["shape"]))
            for i in range(3):
                res = neumann_neg_laplacian(psi_impl[i], float(dx))
                close_array(ctx, f"C:neumann_residual[{i}]", res, r["w1"][i] - _sum(r["w1"][i]) / n, tol * 20)
                close(ctx, f"C:zero_mean[{i}]", _sum(psi_impl[i]) / n, 0.0, tol)
        elif dim == 2:
            close_array(ctx, "C:stream_function_is_greens_convolution", psi_impl, FR.stage_poisson_greens(r["w1"], dx, 2), tol)
        else:
            for i in range(3):
                close_array(ctx, f"C:stream_function_is_greens_convolution[{i}]", psi_impl[i], FR.stage_poisson_greens(r["w1"][i], dx, 3), tol)
    psi = r["cut_psi"].cut
    uD = FR.stage_velocity_2d(psi, dx, r["U"]) if dim == 2 else FR.stage_velocity_3d(psi, dx, r["U"])
    ctx.eq_array("D:velocity_is_curl_of_stream_function_plus_free_stream", r["u1"], uD)


def configs(quick):
    out = []
    # 2D: forcing x free stream x width
    for forcing, fs, w in itertools.product((False, True), (False, True), range(5)):
        shape = (6, 7) if w <= 2 else (9, 10)
        out.append(dict(kind="ns2d", shape=shape, forcing=forcing, free_stream=fs, width=w))
    # 3D
    filters = [None] + [(t, o) for t in ("multiplicative", "convolution") for o in (1, 2, 3)]
    for forcing, fs, flt, solver, w in itertools.product((False, True), (False, True), filters, ("greens_function_convolution", "fast_diagonalisation"), range(5)):
        cfg = dict(kind="ns3d", forcing=forcing, free_stream=fs, filter=flt, solver=solver, width=w)
        if w <= 2:
            cfg["shape"] = (4, 4, 5)
        else:
            cfg["shape"] = (8, 8, 9)
            cfg["stub_poisson"] = True  # the Poisson stage does not depend on the zone width; cut out for the wide-zone grids
        out.append(cfg)
    out.append(dict(kind="passive", shape=(6, 7), field_type="scalar"))
    out.append(dict(kind="passive", shape=(5, 6, 7), field_type="scalar"))
    out.append(dict(kind="passive", shape=(5, 6, 5), field_type="vector"))
    # long thin grids (size-gated slab / blocking code paths in the Python wrappers of the step); Poisson stage cut out
    long_thin = [dict(kind="ns2d", shape=(70, 6), forcing=True, free_stream=True, width=1, stub_poisson=True),
                 dict(kind="ns3d", shape=(36, 4, 4), forcing=True, free_stream=True, filter=None, solver="fast_diagonalisation", width=0, stub_poisson=True),
                 dict(kind="ns2d", shape=(6, 70), forcing=False, free_stream=False, width=0, stub_poisson=True),
                 dict(kind="ns3d", shape=(4, 4, 36), forcing=False, free_stream=False, filter=("multiplicative", 1), solver="greens_function_convolution", width=1, stub_poisson=True)]
    if not quick:
        # non-cubic twins for a covering subset
        out.append(dict(kind="ns2d", shape=(7, 6), forcing=True, free_stream=True, width=2))
        out.append(dict(kind="ns3d", shape=(5, 4, 4), forcing=True, free_stream=True, filter=("multiplicative", 2), solver="greens_function_convolution", width=1))
        out.append(dict(kind="ns3d", shape=(4, 5, 4), forcing=True, free_stream=False, filter=("convolution", 1), solver="fast_diagonalisation", width=2))
        out += long_thin
        return out
    # quick: pairwise-covering subset
    sel = []
    keep2 = [(False, False, 0), (True, True, 2), (True, False, 1), (False, True, 3), (True, True, 4)]
    for c in out:
        if c["kind"] == "ns2d" and (c["forcing"], c["free_stream"], c["width"]) in keep2:
            if c["width"] == 1:
                c = dict(c, shape=(7, 6))  # one grid that is taller than wide
            sel.append(c)
    keep3 = [
        (False, False, None, "greens_function_convolution", 2), (True, True, ("multiplicative", 2), "greens_function_convolution", 1), (True, False, ("convolution", 1), "fast_diagonalisation", 0),
        (False, True, ("multiplicative", 3), "fast_diagonalisation", 2), (True, True, ("convolution", 2), "greens_function_convolution", 3), (False, False, ("multiplicative", 1), "fast_diagonalisation", 4),
    ]
    for c in out:
        if c["kind"] == "ns3d" and (c["forcing"], c["free_stream"], c["filter"], c["solver"], c["width"]) in keep3:
            sel.append(c)
    sel += [c for c in out if c["kind"] == "passive"]
    sel += long_thin[:2]
    return sel


# heavy scenarios: a data-dependent branch introduced into the step forks them; keep the exploration bound small
flow_step.max_paths = 4


def main():
    chk = Check("C01", "one flow time step vs the documented operator sequence, stage by stage with cut points (symbolic execution of the real simulators, z3 NRA + LRA tolerance queries)",
                functions=["FlowSimulator.time_step/_update_simulator_time", "UnboundedNavierStokesFlowSimulator2D/3D._navier_stokes_time_step/_navier_stokes_with_forcing_time_step",
                           "PassiveTransportFlowSimulator._advection_and_diffusion_time_step", "all kernels they call (backend IR)", "UnboundedPoissonSolverPYFFTW2D/3D, FastDiagPoissonSolver3D"],
                files=["sopht/simulator/flow/navier_stokes_flow_simulators.py", "sopht/simulator/flow/passive_transport_flow_simulators.py", "sopht/simulator/flow/flow_simulators.py"]
                + [f"sopht/numeric/eulerian_grid_ops/{d}/{f}" for d in ("stencil_ops_2d", "stencil_ops_3d", "poisson_solver_2d", "poisson_solver_3d") for f in sorted(os.listdir(f"/repo/sopht/numeric/eulerian_grid_ops/{d}")) if f.endswith(".py")])
    chk.maybe_replay()
    sopht_modules()
    cfgs = configs(chk.quick)
    rts = ["float64"] if chk.quick else ["float64", "float32"]
    for rt in rts:
        for c in cfgs:
            if rt == "float32" and c["kind"] == "ns3d" and (c["width"] > 2 or c["filter"] not in (None, ("multiplicative", 2))):
                continue
            chk.add(flow_step, real_t=rt, cfg=c)
    # a simulator constructed (and stepped) earlier in the same process with another domain length / precision must not matter
    later = [dict(kind="ns3d", shape=(4, 4, 5), forcing=True, free_stream=False, filter=None, solver="greens_function_convolution", width=1, x_range=2.5),
             dict(kind="ns2d", shape=(6, 7), forcing=False, free_stream=True, width=1, x_range=0.5),
             dict(kind="ns3d", shape=(4, 4, 5), forcing=False, free_stream=False, filter=("multiplicative", 1), solver="fast_diagonalisation", width=0, x_range=2.0)]
    for c in later:
        chk.add(flow_step, real_t="float64", cfg=c, _earlier=[dict(cfg=dict(c, x_range=1.0))])
    if not chk.quick:
        for c in later:
            chk.add(flow_step, real_t="float32", cfg=c, _earlier=[dict(cfg=dict(c, x_range=1.0)), dict(cfg=dict(c, x_range=1.0), _real_t="float64")])
    if chk.quick:
        chk.add(flow_step, real_t="float32", cfg=dict(kind="ns2d", shape=(6, 7), forcing=True, free_stream=True, width=2))
        chk.add(flow_step, real_t="float32", cfg=dict(kind="passive", shape=(5, 6, 5), field_type="vector"))
    chk.bounds = [f"{len(cfgs)} configurations ({'pairwise-covering subset' if chk.quick else 'full product forcing x free stream x width 0..4 (2D); x filter(7) x solver(2) (3D); passive scalar/vector'})",
                  "long thin grids (70,6) / (36,4,4) (thorough: also (6,70), (4,4,36)) with the Poisson stage cut out", "grids: 2D (6,7) for widths <= 2, (9,10) for widths 3-4; 3D (4,4,5) for widths <= 2, (8,8,9) with the Poisson stage cut out for widths 3-4; passive (6,7), (5,6,7), (5,6,5)",
                  f"precisions {rts}; tolerances {TOL} (absolute, cut variables in [-1,1]); all field values, dt, nu, rho > 0, free stream, clock and every scratch buffer symbolic"]
    chk.bounds.append("later-object instances: a simulator with another x_range (thorough: also another precision) is constructed and stepped first in the same process")
    chk.outside = ["larger grids / other shapes", "rounding (exact reals)", "the Poisson stage on the wide-zone 3-D grids (covered on the small grids; independent of the zone width)", "grids with overlapping damping zones (n < 2*width)"]
    chk.assumptions = ["cut points: the arrays entering boundary damping and the curl are replaced by fresh variables in [-1,1]; soundness: an unsat result over arbitrary values holds for the real ones; bounds are a normalisation (all stages after a cut are linear)",
                       "FFTW = exact DFT (validated in C03); LAPACK tables = data"]
    chk.run()
    chk.finish()


if __name__ == "__main__":
    main()
