#!/usr/bin/env python
"""C05 - finite-difference operators are consistent with their continuous counterparts.

Every differential kernel is run (real callable, backend IR) on arrays that hold a polynomial with
*symbolic coefficients* sampled at x0 + i*h (x = last array axis), symbolic h > 0 and base point;
z3 shows that the interior-cell output equals the exact derivative expression of the polynomial
(computed by the small differentiator below) with the documented sign / axis / prefactor convention.
"""
import itertools
import os
import sys

sys.path.insert(0, os.path.dirname(os.path.dirname(os.path.abspath(__file__))))
import numpy as np  # noqa: E402

from checks.common import Check, scenario, sopht_modules  # noqa: E402
from checks.c11 import _laid_out  # noqa: E402

AX = {"x": 0, "y": 1, "z": 2}  # exponent slot; array axis of coordinate a is  -(1+slot)


class Poly:
    """sum c[e] * x^e0 y^e1 z^e2 with coefficient objects (Sym or float)"""

    def __init__(self, coeffs):
        self.c = dict(coeffs)

    @staticmethod
    def generic(ctx, name, nd, deg, cubic_axis=None):
        c = {}
        for e in itertools.product(range(deg + 2), repeat=3):
            if any(e[k] for k in range(nd, 3)):
                continue
            tot = sum(e)
            if tot <= deg or (cubic_axis is not None and tot == deg + 1 and e[AX[cubic_axis]] == tot):
                c[e] = ctx.scalar(f"{name}_c{e[0]}{e[1]}{e[2]}")
        return Poly(c)

    def d(self, a):
        k = AX[a]
        out = {}
        for e, v in self.c.items():
            if e[k] > 0:
                e2 = list(e)
                e2[k] -= 1
                out[tuple(e2)] = out.get(tuple(e2), 0) + v * e[k]
        return Poly(out)

    def __call__(self, x, y=0.0, z=0.0):
        acc = 0.0
        for e, v in self.c.items():
            acc = acc + v * (x ** e[0]) * (y ** e[1]) * (z ** e[2])
        return acc

    def __mul__(self, o):
        out = {}
        for e1, v1 in self.c.items():
            for e2, v2 in o.c.items():
                e = tuple(a + b for a, b in zip(e1, e2))
                out[e] = out.get(e, 0) + v1 * v2
        return Poly(out)

    def sample(self, ctx, shape, h, base):
        """array of values at cell (.., k, j, i) -> point (x0+i h, y0+j h, z0+k h)"""
        nd = len(shape)
        arr = ctx.zeros(shape)
        for idx in np.ndindex(*shape):
            coord = [base[a] + idx[nd - 1 - a] * h for a in range(nd)] + [0.0] * (3 - nd)
            arr[idx] = self(*coord)
        return arr


def _setup(ctx, nd):
    h = ctx.scalar("h", positive=True)
    base = [ctx.scalar(f"{n}0") for n in "xyz"[:nd]]
    return h, base


def _point(idx, nd, h, base):
    return [base[a] + idx[nd - 1 - a] * h for a in range(nd)] + [0.0] * (3 - nd)


def _centre(shape):
    return tuple(n // 2 for n in shape)


@scenario
def scalar_ops(ctx, op, dim, layout="c"):
    ctx.prefer = "nlsat"
    """operators acting on one scalar field: diffusion flux, outplane curl, filter Laplacians"""
    _, spne, _, _ = sopht_modules()
    from symsopht import load

    nd = dim
    shape = (5,) * nd
    h, base = _setup(ctx, nd)
    pf = ctx.scalar("prefactor")
    p = Poly.generic(ctx, "p", nd, 2)
    f = p.sample(ctx, shape, h, base)
    c = _centre(shape)
    pt = _point(c, nd, h, base)
    if op == "diffusion_flux":
        if nd == 2:
            k = spne.gen_diffusion_flux_pyst_kernel_2d(real_t=ctx.real_t, num_threads=False)
        else:
            k = spne.gen_diffusion_flux_pyst_kernel_3d(real_t=ctx.real_t, num_threads=False)
        out = _laid_out(ctx, "out", shape, layout)  # result array: any ndarray (C order / window of a padded buffer / strided view)
        k(diffusion_flux=out, field=f, prefactor=ctx.cast(pf))
        lap = sum((p.d(a).d(a)(*pt) for a in "xyz"[:nd]), 0.0)
        ctx.eq("diffusion_flux=prefactor*h^2*laplacian", out[c], pf * h * h * lap)
    elif op == "outplane_curl":
        k = spne.gen_outplane_field_curl_pyst_kernel_2d(real_t=ctx.real_t, num_threads=False)
        out = _laid_out(ctx, "out", (2, *shape), layout)  # result array: any ndarray (C order / window of a padded buffer / strided view)
        k(curl=out, field=f, prefactor=ctx.cast(pf))
        ctx.eq("curl_x=+prefactor*2h*d/dy", out[0][c], pf * 2 * h * p.d("y")(*pt))
        ctx.eq("curl_y=-prefactor*2h*d/dx", out[1][c], -pf * 2 * h * p.d("x")(*pt))
    elif op.startswith("filter_laplacian_"):
        a = op[-1]
        n0 = len(load.HANDLES)
        buf1, buf2 = ctx.array("b1", shape), ctx.array("b2", shape)
        spne.gen_laplacian_filter_kernel_3d(filter_order=1, filter_flux_buffer=buf1, field_buffer=buf2, real_t=ctx.real_t, num_threads=False)
        hs = load.HANDLES[n0:n0 + 3]  # created in the order x, y, z
        k = hs["xyz".index(a)].compile()
        out = _laid_out(ctx, "out", shape, layout)  # result array: any ndarray (C order / window of a padded buffer / strided view)
        k(filter_flux=out, field=f)
        ctx.eq(f"filter_flux_{a}=-(h^2/4)*d2/d{a}2", out[c], -(h * h / 4) * p.d(a).d(a)(*pt))
    elif op.startswith("filter_callable:"):
        # the callable the generator returns (the composition the simulators use), applied to a quadratic:
        # L_a p = -(h^2/4) p_aa is a constant, so L_a L_b p = 0.  multiplicative: f - (L_z L_y L_x)^n f = p;
        # convolution: prod_a (1 - L_a^n) p = p + (h^2/4) lap p for n = 1 and p for n >= 2; order 0 is the identity... of (1-1)
        _, ftype, order, ft = op.split(":")
        order = int(order)
        shape = (2 * order + 3,) * 3
        f = p.sample(ctx, shape, h, base)
        c = _centre(shape)
        pt = _point(c, nd, h, base)
        buf1, buf2 = ctx.array("b1", shape), ctx.array("b2", shape)
        k = spne.gen_laplacian_filter_kernel_3d(filter_order=order, filter_flux_buffer=buf1, field_buffer=buf2, real_t=ctx.real_t, num_threads=False, filter_type=ftype, field_type=ft)
        lap = sum((p.d(a).d(a)(*pt) for a in "xyz"), 0.0)
        expect = p(*pt) + ((h * h / 4) * lap if (ftype == "convolution" and order == 1) else 0.0)
        if ft == "vector":
            F = ctx.zeros((3, *shape))
            for i in range(3):
                F[i] = f * (i + 1)
            k(vector_field=F)
            for i in range(3):
                ctx.eq(f"filtered_quadratic_at_an_interior_cell[{i}]", F[i][c], (i + 1) * expect)
        else:
            k(scalar_field=f)
            ctx.eq("filtered_quadratic_at_an_interior_cell", f[c], expect)
    else:
        raise ValueError(op)


@scenario
def vector_ops(ctx, op, dim, layout="c"):
    ctx.prefer = "nlsat"
    _, spne, _, _ = sopht_modules()
    nd = dim
    shape = (5,) * nd
    h, base = _setup(ctx, nd)
    pf = ctx.scalar("prefactor")
    P = [Poly.generic(ctx, f"f{n}", nd, 2) for n in "xyz"[:nd]]
    F = ctx.zeros((nd, *shape))
    for i in range(nd):
        F[i] = P[i].sample(ctx, shape, h, base)
    c = _centre(shape)
    pt = _point(c, nd, h, base)
    if nd == 2:
        curl_exact = [P[1].d("x")(*pt) - P[0].d("y")(*pt)]
    else:
        curl_exact = [P[2].d("y")(*pt) - P[1].d("z")(*pt), P[0].d("z")(*pt) - P[2].d("x")(*pt), P[1].d("x")(*pt) - P[0].d("y")(*pt)]
    if op == "inplane_curl":
        k = spne.gen_inplane_field_curl_pyst_kernel_2d(real_t=ctx.real_t, num_threads=False)
        out = _laid_out(ctx, "out", shape, layout)  # result array: any ndarray (C order / window of a padded buffer / strided view)
        k(curl=out, field=F, prefactor=ctx.cast(pf))
        ctx.eq("curl=prefactor*2h*(dfy/dx-dfx/dy)", out[c], pf * 2 * h * curl_exact[0])
    elif op == "curl":
        k = spne.gen_curl_pyst_kernel_3d(real_t=ctx.real_t, num_threads=False)
        out = _laid_out(ctx, "out", (3, *shape), layout)  # result array: any ndarray (C order / window of a padded buffer / strided view)
        k(curl=out, field=F, prefactor=ctx.cast(pf))
        for i, n in enumerate("xyz"):
            ctx.eq(f"curl_{n}=prefactor*2h*curl_{n}", out[i][c], pf * 2 * h * curl_exact[i])
    elif op == "divergence":
        k = spne.gen_divergence_pyst_kernel_3d(real_t=ctx.real_t, num_threads=False)
        out = _laid_out(ctx, "out", shape, layout)  # result array: any ndarray (C order / window of a padded buffer / strided view)
        k(divergence=out, field=F, inv_dx=ctx.cast(pf))
        ctx.eq("divergence=inv_dx*h*div", out[c], pf * h * (P[0].d("x")(*pt) + P[1].d("y")(*pt) + P[2].d("z")(*pt)))
    elif op == "forcing_update":
        gen = spne.gen_update_vorticity_from_velocity_forcing_pyst_kernel_2d if nd == 2 else spne.gen_update_vorticity_from_velocity_forcing_pyst_kernel_3d
        k = gen(real_t=ctx.real_t, num_threads=False)
        w = ctx.array("w", shape if nd == 2 else (3, *shape))
        w0 = w.copy()
        k(vorticity_field=w, velocity_forcing_field=F, prefactor=ctx.cast(pf))
        if nd == 2:
            ctx.eq("w+=prefactor*2h*curl", w[c], w0[c] + pf * 2 * h * curl_exact[0])
        else:
            for i, n in enumerate("xyz"):
                ctx.eq(f"w_{n}+=prefactor*2h*curl_{n}", w[i][c], w0[i][c] + pf * 2 * h * curl_exact[i])
    elif op == "penalised_update":
        gen = spne.gen_update_vorticity_from_penalised_velocity_pyst_kernel_2d if nd == 2 else spne.gen_update_vorticity_from_penalised_velocity_pyst_kernel_3d
        k = gen(real_t=ctx.real_t, num_threads=False)
        Q = [Poly.generic(ctx, f"u{n}", nd, 2) for n in "xyz"[:nd]]
        U = ctx.zeros((nd, *shape))
        for i in range(nd):
            U[i] = Q[i].sample(ctx, shape, h, base)
        w = ctx.array("w", shape if nd == 2 else (3, *shape))
        w0 = w.copy()
        k(vorticity_field=w, penalised_velocity_field=F, velocity_field=U, prefactor=ctx.cast(pf))
        if nd == 2:
            cu = Q[1].d("x")(*pt) - Q[0].d("y")(*pt)
            ctx.eq("w+=prefactor*2h*curl(up-u)", w[c], w0[c] + pf * 2 * h * (curl_exact[0] - cu))
        else:
            cu = [Q[2].d("y")(*pt) - Q[1].d("z")(*pt), Q[0].d("z")(*pt) - Q[2].d("x")(*pt), Q[1].d("x")(*pt) - Q[0].d("y")(*pt)]
            for i, n in enumerate("xyz"):
                ctx.eq(f"w_{n}+=prefactor*2h*curl_{n}(up-u)", w[i][c], w0[i][c] + pf * 2 * h * (curl_exact[i] - cu[i]))
    elif op == "stretching_flux":
        k = spne.gen_vorticity_stretching_flux_pyst_kernel_3d(real_t=ctx.real_t, num_threads=False)
        W = ctx.array("w", (3, *shape))  # vorticity enters pointwise: arbitrary values
        out = _laid_out(ctx, "out", (3, *shape), layout)  # result array: any ndarray (C order / window of a padded buffer / strided view)
        k(vorticity_stretching_flux_field=out, vorticity_field=W, velocity_field=F, prefactor=ctx.cast(pf))
        for i, n in enumerate("xyz"):
            ex = W[0][c] * P[i].d("x")(*pt) + W[1][c] * P[i].d("y")(*pt) + W[2][c] * P[i].d("z")(*pt)
            ctx.eq(f"stretch_{n}=prefactor*2h*(w.grad)u_{n}", out[i][c], pf * 2 * h * ex)
    else:
        raise ValueError(op)


@scenario
def eno3_flux(ctx, dim, axis, case):
    ctx.prefer = "nlsat"
    """conservative ENO3 flux difference along `axis` with a constant advecting velocity in that
    direction (other components zero): exact derivative of the nodal flux c*f for cubics when both
    faces upwind alike (c>0 or c<0); with a velocity sign change between the two faces: quadratics."""
    _, spne, _, _ = sopht_modules()
    nd = dim
    shape = (7,) * nd
    h, base = _setup(ctx, nd)
    inv_dx = ctx.scalar("inv_dx")
    gen = spne.gen_advection_flux_conservative_eno3_pyst_kernel_2d if nd == 2 else spne.gen_advection_flux_conservative_eno3_pyst_kernel_3d
    k = gen(real_t=ctx.real_t, num_threads=False)
    c = _centre(shape)
    pt = _point(c, nd, h, base)
    ai = "xyz".index(axis)
    U = ctx.zeros((nd, *shape))
    if case in ("positive", "negative"):
        cv = ctx.scalar("c", positive=True)
        cv = cv if case == "positive" else -cv
        U[ai] = U[ai] + cv
        p = Poly.generic(ctx, "p", nd, 2, cubic_axis=axis)
        g = Poly({e: v * cv for e, v in p.c.items()})
    elif case in ("tie_front", "tie_back"):
        # the face velocity sum is EXACTLY zero on the front (back) face of the centre cell: u(x) = s*(x - x_face)
        s = ctx.scalar("s", default=0.7)
        ctx.assume(s != 0) if ctx.sym else None
        xf = pt[ai] + (h / 2 if case == "tie_front" else -h / 2)
        vel = Poly({(0, 0, 0): -s * xf, tuple(1 if k == ai else 0 for k in range(3)): s})
        U[ai] = vel.sample(ctx, shape, h, base)
        p = Poly.generic(ctx, "p", nd, 1)
        g = vel * p
    else:
        # velocity linear in the advection coordinate, vanishing between the centre cell and its right neighbour
        s = ctx.scalar("s", positive=True)
        # u(x) = s*(x - x_c - h/4): front face sum > 0 (upwind-left), back face sum < 0 (upwind-right)
        vel = Poly({(0, 0, 0): -s * (pt[ai] + h / 4), tuple(1 if k == ai else 0 for k in range(3)): s})
        U[ai] = vel.sample(ctx, shape, h, base)
        p = Poly.generic(ctx, "p", nd, 1)
        g = vel * p  # nodal flux u*f: quadratic
    f = p.sample(ctx, shape, h, base)
    out = ctx.zeros(shape)
    k(advection_flux=out, field=f, velocity=U, inv_dx=ctx.cast(inv_dx))
    ctx.eq(f"eno3_{axis}_{case}=inv_dx*h*d(u f)/d{axis}", out[c], inv_dx * h * g.d(axis)(*pt))


def main():
    chk = Check("C05", "consistency of every differential stencil with its continuous operator on polynomials with symbolic coefficients (z3, NRA identities)",
                functions=["gen_diffusion_flux_pyst_kernel_2d/3d", "gen_inplane_field_curl_pyst_kernel_2d", "gen_outplane_field_curl_pyst_kernel_2d", "gen_curl_pyst_kernel_3d",
                           "gen_divergence_pyst_kernel_3d", "gen_update_vorticity_from_velocity_forcing_pyst_kernel_2d/3d", "gen_update_vorticity_from_penalised_velocity_pyst_kernel_2d/3d",
                           "gen_vorticity_stretching_flux_pyst_kernel_3d", "1-D filter Laplacians of gen_laplacian_filter_kernel_3d and the composed filter callables (both types, orders 1-3, scalar/vector)", "gen_advection_flux_conservative_eno3_pyst_kernel_2d/3d",
                           "FlowSimulator._init_domain (axis convention)"],
                files=["sopht/numeric/eulerian_grid_ops/stencil_ops_2d/diffusion_flux_2d.py", "sopht/numeric/eulerian_grid_ops/stencil_ops_2d/inplane_field_curl_2d.py",
                       "sopht/numeric/eulerian_grid_ops/stencil_ops_2d/outplane_field_curl_2d.py", "sopht/numeric/eulerian_grid_ops/stencil_ops_2d/update_vorticity_from_velocity_forcing_2d.py",
                       "sopht/numeric/eulerian_grid_ops/stencil_ops_2d/advection_flux_2d.py", "sopht/numeric/eulerian_grid_ops/stencil_ops_3d/diffusion_flux_3d.py",
                       "sopht/numeric/eulerian_grid_ops/stencil_ops_3d/curl_3d.py", "sopht/numeric/eulerian_grid_ops/stencil_ops_3d/divergence_3d.py",
                       "sopht/numeric/eulerian_grid_ops/stencil_ops_3d/update_vorticity_from_velocity_forcing_3d.py", "sopht/numeric/eulerian_grid_ops/stencil_ops_3d/vorticity_stretching_flux_3d.py",
                       "sopht/numeric/eulerian_grid_ops/stencil_ops_3d/advection_flux_3d.py", "sopht/numeric/eulerian_grid_ops/stencil_ops_3d/laplacian_filter_3d.py",
                       "sopht/simulator/flow/flow_simulators.py"])
    chk.maybe_replay()
    _, spne, sps, _ = sopht_modules()
    # axis convention of the coordinate field (x varies along the last array axis): concrete check of _init_domain
    for dim, gs in ((2, (3, 4)), (3, (3, 4, 5))):
        sim = sps.PassiveTransportFlowSimulator(kinematic_viscosity=0.1, grid_dim=dim, grid_size=gs, x_range=1.0, real_t=np.float64, num_threads=1)
        pf = sim.position_field
        ok = all(np.all(np.diff(pf[a], axis=dim - 1 - a) > 0) and all(np.all(np.diff(pf[a], axis=b) == 0) for b in range(dim) if b != dim - 1 - a) for a in range(dim))
        if not ok:
            chk.errors.append(f"axis convention: position_field[{dim}D] does not vary with x along the last axis")
    rts = ["float64", "float32"]
    for rt in rts:
        for dim in (2, 3):
            chk.add(scalar_ops, real_t=rt, op="diffusion_flux", dim=dim)
            chk.add(vector_ops, real_t=rt, op="forcing_update", dim=dim)
            chk.add(vector_ops, real_t=rt, op="penalised_update", dim=dim)
            for axis in "xyz"[:dim]:
                for case in ("positive", "negative", "sign_change", "tie_front", "tie_back"):
                    chk.add(eno3_flux, real_t=rt, dim=dim, axis=axis, case=case)
        chk.add(scalar_ops, real_t=rt, op="outplane_curl", dim=2)
        chk.add(vector_ops, real_t=rt, op="inplane_curl", dim=2)
        for op in ("curl", "divergence", "stretching_flux"):
            chk.add(vector_ops, real_t=rt, op=op, dim=3)
        if rt == "float64":
            # memory layout of the result array (the operators accept any ndarray)
            for lay in ("interior", "strided"):
                chk.add(scalar_ops, real_t=rt, op="diffusion_flux", dim=2, layout=lay)
                chk.add(scalar_ops, real_t=rt, op="diffusion_flux", dim=3, layout=lay)
                chk.add(scalar_ops, real_t=rt, op="outplane_curl", dim=2, layout=lay)
                chk.add(vector_ops, real_t=rt, op="inplane_curl", dim=2, layout=lay)
                for op in ("curl", "divergence", "stretching_flux"):
                    chk.add(vector_ops, real_t=rt, op=op, dim=3, layout=lay)
        for a in "xyz":
            chk.add(scalar_ops, real_t=rt, op=f"filter_laplacian_{a}", dim=3)
        for ftype in ("multiplicative", "convolution"):
            for order in ((1, 2) if chk.quick else (1, 2, 3)):
                chk.add(scalar_ops, real_t=rt, op=f"filter_callable:{ftype}:{order}:scalar", dim=3)
            chk.add(scalar_ops, real_t=rt, op=f"filter_callable:{ftype}:2:vector", dim=3)
    chk.bounds = ["all polynomials of total degree <= 2 (ENO3: + pure cubic term along the advection axis; sign-change case: linear field x linear velocity)",
                  "symbolic coefficients, spacing h>0, base point, prefactor; one interior cell of a 5^d (7^d for ENO3) grid (stencils are translation invariant by construction of the IR)",
                  "result arrays of the flux / curl / divergence / stretching operators in C order, as interior of a padded allocation and as every second cell of a wider buffer"]
    chk.outside = ["boundary cells", "non-polynomial fields (second-order accuracy for smooth fields follows by Taylor's theorem, not re-proved)", "rounding"]
    chk.assumptions = ["exact real arithmetic", "axis convention checked concretely on _init_domain"]
    chk.run()
    chk.finish()


if __name__ == "__main__":
    main()
