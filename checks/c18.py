#!/usr/bin/env python
"""C18 - a run resumed from a checkpoint continues as the uninterrupted run would have.

Decomposition (DESIGN C18):
 (1) no hidden state: two symbolic copies of one coupled step (body-force evaluation, forcing step,
     interaction, flow step) share the PUBLIC state (vorticity, velocity, clock, marker position- and
     velocity-mismatch, body velocity) but hold DIFFERENT arbitrary contents in every scratch array,
     FFT/solver work buffer and filter buffer; z3 shows their public post-states coincide.  Together with
     C17 (save/load identity) and deterministic construction this gives restart continuity by induction.
 (4) deterministic construction: two constructions give bit-equal tables (concrete comparison, labelled).
 (5) restart helper: CrossHair (symbolic execution + z3) on the real restart_simulation with the
     directory listing / loads stubbed: picks the largest index, loads exactly its three files, returns
     the flow time, raises FileNotFoundError iff no checkpoint and ValueError iff times disagree."""
import os
import re
import subprocess
import sys

sys.path.insert(0, os.path.dirname(os.path.dirname(os.path.abspath(__file__))))
import numpy as np  # noqa: E402

from checks.c10 import LAYOUTS, _build  # noqa: E402
from checks.common import VERIF, Check, Claim, scenario, sopht_modules  # noqa: E402
from checks.flowstep import run_step  # noqa: E402


def _coupled_step(ctx, cfg, tag, shared):
    """one coupled step on a fresh (simulator, interactor) pair; `shared` carries the public state arrays of copy A"""
    dim = len(cfg["shape"])
    grid = tuple(cfg["shape"])
    n = 2

    def init(sim):
        # public flow state shared between the copies; the forcing field is zero at every step boundary (C01)
        if shared:
            sim.vorticity_field[...] = shared["w"]
            sim.velocity_field[...] = shared["u"]
        sim.eul_grid_forcing_field[...] = sim.eul_grid_forcing_field * 0

    r = run_step(ctx, cfg, tag=tag, scalar_tag="", init=init, step=False, cut_tag="")
    sim = r["sim"]
    harness = {"pos": LAYOUTS[dim][0].astype(ctx.real_t) * (grid[-1] / 8.0) * 0 + LAYOUTS[dim][0].astype(ctx.real_t), "vel": ctx.array("body_velocity", (dim, n))}
    inter, forces, torques, dx = _build(ctx, dim, grid, tag + "ia", sim.eul_grid_forcing_field, sim.velocity_field, False, harness, 2.0, 0.5, 0.1)
    # public coupling state shared; everything else in the interactor stays copy-specific scratch
    X, V = ctx.array("X", (dim, n)), ctx.array("V", (dim, n))
    if ctx.sym:
        inter.lag_grid_position_mismatch_field = X.copy()
        inter.lag_grid_velocity_mismatch_field = V.copy()
    else:
        inter.lag_grid_position_mismatch_field[...] = X
        inter.lag_grid_velocity_mismatch_field[...] = V
    inter.time = r["t0"]
    dt = r["dt"]
    # the order of the coupled loop of the restart example
    inter.compute_flow_forces_and_torques()
    inter.time_step(dt)
    inter()
    if cfg.get("free_stream"):
        sim.time_step(dt, free_stream_velocity=r["U"])
    else:
        sim.time_step(dt)
    r["inter"] = inter
    r["forces"] = forces
    return r


@scenario
def no_hidden_state(ctx, cfg):
    a = _coupled_step(ctx, cfg, "A_", None)
    shared = {"w": a["w0"], "u": a["u0"]}
    b = _coupled_step(ctx, cfg, "B_", shared)
    sa, sb = a["sim"], b["sim"]
    ctx.eq_array("pre_damping_vorticity_independent_of_scratch", b["cut_pen"].pre, a["cut_pen"].pre)
    ctx.eq_array("vorticity_independent_of_scratch", sb.vorticity_field, sa.vorticity_field)
    ctx.eq_array("stream_function_stage_independent_of_scratch", b["cut_psi"].pre, a["cut_psi"].pre)
    ctx.eq_array("velocity_independent_of_scratch", sb.velocity_field, sa.velocity_field)
    ctx.eq("clock_independent_of_scratch", sb.time, sa.time)
    ctx.eq_array("forcing_field_zero_again", sb.eul_grid_forcing_field, sa.eul_grid_forcing_field * 0)
    ia, ib = a["inter"], b["inter"]
    ctx.eq_array("position_mismatch_independent_of_scratch", ib.lag_grid_position_mismatch_field, ia.lag_grid_position_mismatch_field)
    ctx.eq_array("velocity_mismatch_independent_of_scratch", ib.lag_grid_velocity_mismatch_field, ia.lag_grid_velocity_mismatch_field)
    ctx.eq_array("marker_force_independent_of_scratch", ib.lag_grid_forcing_field, ia.lag_grid_forcing_field)
    ctx.eq_array("body_forces_independent_of_scratch", b["forces"], a["forces"])
    ctx.eq("forcing_clock_independent_of_scratch", ib.time, ia.time)


@scenario
def deterministic_construction(ctx, cfg):
    """(4) concrete comparison, not a solver query: two constructions give bit-equal captured tables"""
    from checks.flowstep import build_sim
    from symsopht import graph

    s1, s2 = build_sim(ctx, cfg), build_sim(ctx, cfg)
    f1 = {f.path: f.arr for f in graph.find_arrays(s1, "obj")}
    f2 = {f.path: f.arr for f in graph.find_arrays(s2, "obj")}
    same_keys = set(f1) == set(f2)
    ok = same_keys and all(np.array_equal(f1[k], f2[k], equal_nan=True) for k in f1 if "pyfftw_buffer" not in k and "domain_doubled" not in k)
    ctx.claims.append(Claim("two_constructions_give_bit_equal_tables(concrete)", "unsat" if ok else "sat", {}))
    if not ok:
        ctx.nfail += 1
    if not ctx.sym:
        ctx.replay_result = (not ok, "tables equal" if ok else "tables differ")


@scenario
def restart_helper(ctx, lo, hi, max_files, timeout):
    harness = os.path.join(VERIF, "checks", "crosshair", "restart_helper.py")
    if not ctx.sym:
        # replay a CrossHair counterexample concretely against the real helper
        sys.path.insert(0, os.path.dirname(harness))
        os.environ.update(C18_INDEX_LO=str(lo), C18_INDEX_HI=str(hi), C18_MAX_FILES=str(max_files))
        import restart_helper as H

        args = eval(ctx.model["args"], {"__builtins__": {}})  # e.g. ([4], 2, 2)
        indices, tf, tr = args
        res = H.run_restart(list(indices), tf, tr)
        posts = [
            (res[0] == "nofile") == (len(indices) == 0),
            (res[0] == "mismatch") == (len(indices) > 0 and tf != tr),
            res[0] != "ok" or res[2] == tf,
            len(indices) == 0 or res[1] == ["sopht_%04d.h5" % max(indices), "rod_%04d.h5" % max(indices), "forcing_grid_%04d.h5" % max(indices)],
        ]
        ctx.replay_result = (not all(posts), f"run_restart{args} -> {res}; postconditions {posts}")
        return
    env = dict(os.environ, C18_INDEX_LO=str(lo), C18_INDEX_HI=str(hi), C18_MAX_FILES=str(max_files), NUMBA_DISABLE_JIT="1")
    p = subprocess.run([sys.executable, "-m", "crosshair", "check", "--report_all", "--per_condition_timeout", str(timeout), harness], capture_output=True, text=True, env=env, cwd=VERIF, timeout=timeout * 8 + 120)
    out = p.stdout + p.stderr
    ctx.note(out.strip()[-600:])
    src = open(harness).read().splitlines()
    names = {}
    for m in re.finditer(r"restart_helper\.py:(\d+): (info|error): (.*)", out):
        ln, kind, msg = int(m.group(1)), m.group(2), m.group(3)
        line = src[ln - 1].strip() if ln - 1 < len(src) else ""
        fn = "twin" if ln > [i for i, l in enumerate(src) if l.startswith("def reachability_twin")][0] else "helper"
        names[(fn, ln)] = (kind, msg, line)
    n_conf = 0
    for (fn, ln), (kind, msg, line) in sorted(names.items()):
        if fn == "twin":
            ok = kind == "error" and "false when calling" in msg
            ctx.claims.append(Claim("reachability_twin_refuted(the_helper_can_return_normally)", "unsat" if ok else "unknown", {}))
            if not ok:
                ctx.nfail += 1
            continue
        cname = f"crosshair:{line[:70]}"
        if kind == "info" and "Confirmed over all paths" in msg:
            ctx.claims.append(Claim(cname, "unsat"))
            n_conf += 1
        elif kind == "error" and "when calling run_restart(" in msg:
            args = msg.split("run_restart(", 1)[1].rsplit(")", 1)[0]
            args = args.split(") (which", 1)[0]
            ctx.claims.append(Claim(cname, "sat", {"args": "(" + args + ")"}))
            ctx.claims[-1].model = {"args": "(" + args + ")"}
            ctx.nfail += 1
        else:
            ctx.claims.append(Claim(cname, "unknown", {}))
            ctx.nfail += 1
    if n_conf + sum(1 for c in ctx.claims if c.status == "sat") < 4:
        ctx.claims.append(Claim("crosshair:all_four_postconditions_reported", "unknown", {}))
        ctx.nfail += 1


@scenario
def restart_time_agreement(ctx, indices):
    """restart helper with REAL-valued flow / body times (solver variables, path forking on the helper's comparison):
    it returns the flow time iff the two times are equal and refuses (ValueError) iff they differ - by however little"""
    from pathlib import PurePosixPath

    sopht_modules()
    import sopht.utils.restart_sim as rs

    t_flow = ctx.scalar("t_flow", default=20.0)
    t_rod = ctx.scalar("t_rod", default=20.0)
    log = []

    class _IO:
        def __init__(self, t):
            self.t = t

        def load(self, h5_file_name):
            log.append(h5_file_name)
            return self.t

    class _Cwd:
        def glob(self, pattern):
            return [PurePosixPath("sopht_%04d.h5" % i) for i in indices]

    class _PathStub:
        @staticmethod
        def cwd():
            return _Cwd()

    saved = (rs.Path, rs.ea)
    rs.Path = _PathStub
    rs.ea = type("ea", (), {"load_state": staticmethod(lambda sim, d, verbose: t_rod), "BaseSystemCollection": object})
    try:
        try:
            t = rs.restart_simulation(restart_simulator=None, io=_IO(t_flow), rod_io=_IO(-1.0), forcing_io=_IO(-2.0), restart_dir="d")
            outcome = "ok"
        except ValueError:
            t, outcome = None, "mismatch"
    finally:
        rs.Path, rs.ea = saved
    if ctx.sym:
        from symsopht import sym as S

        same = S._cmp("eq", S.lift(t_flow), S.lift(t_rod))
        ctx.claim("proceeds_only_when_flow_and_body_times_agree", same if outcome == "ok" else S.Not(same))
        if outcome == "ok":
            ctx.eq("returns_the_flow_time", t, t_flow)
    else:
        ctx.claim("proceeds_only_when_flow_and_body_times_agree", (t_flow == t_rod) == (outcome == "ok"))
        if outcome == "ok":
            ctx.eq("returns_the_flow_time", t, t_flow)
    m = max(indices)
    ctx.claim("loads_the_three_files_of_the_largest_index", log == ["sopht_%04d.h5" % m, "rod_%04d.h5" % m, "forcing_grid_%04d.h5" % m])


# heavy scenarios: a data-dependent branch introduced into the step forks them; keep the exploration bound small
no_hidden_state.max_paths = 4


def main():
    chk = Check("C18", "restart continuity: no hidden state (two-copy symbolic coupled step, z3) + restart helper (CrossHair) + deterministic construction (concrete)",
                functions=["UnboundedNavierStokesFlowSimulator2D/3D.time_step (with forcing)", "ImmersedBodyFlowInteraction / VirtualBoundaryForcing (coupled step)", "restart_simulation", "IO (C17)"],
                files=["sopht/utils/restart_sim.py", "sopht/utils/io.py", "sopht/simulator/flow/navier_stokes_flow_simulators.py", "sopht/numeric/immersed_boundary_ops/VirtualBoundaryForcing.py",
                       "sopht/simulator/immersed_body/immersed_body_flow_interaction.py", "sopht/numeric/eulerian_grid_ops/poisson_solver_2d/UnboundedPoissonSolverPYFFTW2D.py",
                       "sopht/numeric/eulerian_grid_ops/poisson_solver_3d/UnboundedPoissonSolverPYFFTW3D.py", "sopht/numeric/eulerian_grid_ops/stencil_ops_3d/laplacian_filter_3d.py"])
    chk.maybe_replay()
    sopht_modules()
    cfgs = [
        dict(kind="ns2d", shape=(9, 8), forcing=True, free_stream=True, width=2),
        dict(kind="ns3d", shape=(6, 6, 6), forcing=True, free_stream=True, filter=("multiplicative", 2), solver="fast_diagonalisation", width=2),
    ]
    if not chk.quick:
        cfgs += [
            dict(kind="ns2d", shape=(8, 8), forcing=True, free_stream=False, width=0),
            dict(kind="ns3d", shape=(8, 8, 8), forcing=True, free_stream=False, filter=("convolution", 1), solver="fast_diagonalisation", width=1),
            dict(kind="ns3d", shape=(8, 8, 8), forcing=True, free_stream=True, filter=None, solver="fast_diagonalisation", width=0),
        ]
    for c in cfgs:
        chk.add(no_hidden_state, cfg=c)
        chk.add(deterministic_construction, cfg=c)
    chk.add(deterministic_construction, cfg=dict(kind="ns3d", shape=(4, 4, 5), forcing=True, free_stream=True, filter=None, solver="greens_function_convolution", width=2))
    chk.add(restart_time_agreement, indices=[3, 7])
    chk.add(restart_time_agreement, real_t="float32", indices=[9999, 10000])
    chk.add(restart_helper, lo=0, hi=12, max_files=2, timeout=120)
    chk.add(restart_helper, lo=9994, hi=10006, max_files=2, timeout=240)
    if not chk.quick:
        chk.add(restart_helper, lo=0, hi=12, max_files=3, timeout=900)
    chk.bounds = ["(1) one coupled step (body-force evaluation, forcing step, interaction, flow step) on 9x8 (taller than wide) / 6x6x6 (thorough 8x8x8) grids with a 2-marker body; every scratch array, solver buffer, filter buffer, interactor work array holds different arbitrary contents in the two copies",
                  "(5) CrossHair: <= 2 checkpoint files with indices in [0,12) and in [9994,10006) (the 4->5 digit boundary of the :04d file names); thorough: also <= 3 files; flow/body times arbitrary ints", "(4) concrete comparison of constructed tables", "(5b) restart helper with real-valued flow / body times as solver variables (all paths of its comparison), two fixed file sets"]
    chk.outside = ["PyElastica's save_state/load_state and time stepper (upstream)", "through-HDF5 fidelity (C17's stub contract)", "longer runs: follow by induction over steps from (1)+(C17)+(4), not re-proved",
                   "3-D Green's-function solver in (1) on 8^3 grids (cost of the exact DFT; its buffer independence is C03)"]
    chk.assumptions = ["the Eulerian forcing field is zero at step boundaries (C01)", "forcing grid = harness stub with concrete marker positions (C10)", "CrossHair's 'Confirmed over all paths' is taken as the bounded verdict; anything else is inconclusive"]
    chk.run()
    chk.finish()


if __name__ == "__main__":
    main()
