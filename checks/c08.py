#!/usr/bin/env python
"""C08 - action equals reaction between every immersed body and the fluid.

Real PyElastica bodies + real SophT forcing grids; body pose (positions, directors), velocities,
radii, masses and the marker forces are solver variables.  Directors are nine unconstrained entries
per element: the force/couple/moment/power identities are polynomial identities that hold for every
matrix, hence for every rotation (no orthonormality needed; DESIGN C08)."""
import os
import sys

sys.path.insert(0, os.path.dirname(os.path.dirname(os.path.abspath(__file__))))
import numpy as np  # noqa: E402

from checks import bodies as B  # noqa: E402
from checks.common import Check, bound_vars, close, scenario, sopht_modules  # noqa: E402

ROD_GRIDS = {"nodal", "element", "edge", "surface"}


def _vec(a, i):
    """column i of a (3, n) array as a list of 3"""
    return [a[0, i], a[1, i], a[2, i]] if a.shape[0] == 3 else [a[0, i], a[1, i], 0.0]


def _add(u, v):
    return [x + y for x, y in zip(u, v)]


def _sub(u, v):
    return [x - y for x, y in zip(u, v)]


def _scale(u, s):
    return [x * s for x in u]


def _dot(u, v):
    return u[0] * v[0] + u[1] * v[1] + u[2] * v[2]


def _markers_of_element(grid, grid_kind, k, n_elems):
    if grid_kind == "surface":
        return list(range(int(grid.start_idx[k]), int(grid.end_idx[k])))
    if grid_kind == "edge":
        return [k, n_elems + k, 2 * n_elems + k]
    if grid_kind == "element":
        return [k]
    return list(range(grid.num_lag_nodes))  # rigid bodies: one 'element'


@scenario
def transfer_balance(ctx, grid_kind, body_kind, dim, n_elems, taper, grid_kw):
    sopht_modules()
    B.install_proxy()
    B.proxy(False)
    body = B.make_body(body_kind, n_elems=n_elems, taper=taper)
    grid = B.make_grid(grid_kind, body, dim=dim, **grid_kw)
    N = grid.num_lag_nodes
    ne = body.n_elems if body_kind == "rod" else 1
    planar = dim == 2 and body_kind != "rod"
    st = B.symbolise_body(ctx, body, body_kind, planar=planar, planar_rod=(dim == 2 and body_kind == "rod"))
    B.symbolise_grid(ctx, grid, sphere=(grid_kind == "sphere"))
    B.proxy(ctx.sym)
    try:
        nn = ne + 1 if body_kind == "rod" else 1
        F = ctx.array("F", (dim, N))
        forces = ctx.array("forces_prior", (3, nn))
        torques = ctx.array("torques_prior", (3, ne))
        forces0, torques0 = forces.copy(), torques.copy()
        grid.compute_lag_grid_position_field()
        grid.compute_lag_grid_velocity_field()
        # frame condition: the transfer writes the two body arrays (and its own force scratch); the grid's kinematic
        # state, the marker forces and the body state are inputs
        scratch = {"lag_grid_torque_field", "element_forces_left_edge_nodes", "element_forces_right_edge_nodes"}
        if grid_kind == "nodal":
            scratch.add("moment_arm")  # the nodal grid computes its half-element arm inside the transfer (its own scratch)
        snap = {n: getattr(grid, n).copy() for n in sorted(B.RESULT_ARRAYS - scratch) if isinstance(getattr(grid, n, None), np.ndarray)}
        F0 = F.copy()
        body0 = {k: v.copy() for k, v in st.items()}
        grid.transfer_forcing_from_grid_to_body(body_flow_forces=forces, body_flow_torques=torques, lag_grid_forcing_field=F)
        for n, a0 in snap.items():
            ctx.same_array(f"transfer_leaves_grid_state_untouched:{n}", getattr(grid, n), a0)
        ctx.same_array("transfer_leaves_marker_forces_untouched", F, F0)
        for k, v0 in body0.items():
            ctx.same_array(f"transfer_leaves_body_state_untouched:{k}", st[k], v0)
    finally:
        B.proxy(False)
    X, Q = st["position_collection"], st["director_collection"]
    # (a) net force
    for a in range(dim):
        tot = 0.0
        for j in range(nn):
            tot = tot + forces[a, j]
        mk = 0.0
        for m in range(N):
            mk = mk + F[a, m]
        ctx.eq(f"net_force_on_body_equals_minus_marker_sum[{a}]", tot, -mk)
    if grid_kind == "nodal":
        return
    pos, vel = grid.position_field, grid.velocity_field
    Fm = [_vec(F, m) for m in range(N)]
    xm = [_vec(pos, m) for m in range(N)]
    # element centres
    if body_kind == "rod":
        centre = [_scale(_add(_vec(X, k), _vec(X, k + 1)), 0.5) for k in range(ne)]
    else:
        centre = [_vec(X, 0)]
    T_lab = []
    for k in range(ne):
        t = [0.0, 0.0, 0.0]
        for m in _markers_of_element(grid, grid_kind, k, ne):
            t = _add(t, B.cross(_sub(xm[m], centre[k]), _scale(Fm[m], -1.0)))
        T_lab.append(t)
    # (b) couples handed to PyElastica = Q * T_lab
    if grid_kind == "element":
        ctx.same_array("element_centric_grid_leaves_couples_untouched", torques, torques0)
    else:
        for k in range(ne):
            for i in range(3):
                if planar and i < 2:
                    continue
                exp = Q[i, 0, k] * T_lab[k][0] + Q[i, 1, k] * T_lab[k][1] + Q[i, 2, k] * T_lab[k][2]
                ctx.eq(f"couple_is_director_times_lab_torque[{i},{k}]", torques[i, k], exp)
    # (c) lab-frame moment balance about an arbitrary point
    c = [ctx.scalar(f"ref{i}", default=0.1 * i) for i in range(3)]
    lhs = [0.0, 0.0, 0.0]
    for j in range(nn):
        fj = [forces[0, j], forces[1, j], forces[2, j] if dim == 3 else 0.0]
        lhs = _add(lhs, B.cross(_sub(_vec(X, j), c), fj))
    for k in range(ne):
        lhs = _add(lhs, T_lab[k])
    rhs = [0.0, 0.0, 0.0]
    for m in range(N):
        rhs = _sub(rhs, B.cross(_sub(xm[m], c), Fm[m]))
    comps = range(3) if dim == 3 else [2]
    if dim == 2 and body_kind == "rod":
        # 2-D grids use the first two rows of 3-D rod data: the balance is claimed for planar data (z rows = 0)
        pass
    for i in comps:
        ctx.eq(f"moment_balance_about_any_point[{i}]", lhs[i], rhs[i])
    # (d) rigid bodies: power of the transferred wrench
    if body_kind != "rod":
        V, W = st["velocity_collection"], st["omega_collection"]
        f0 = [forces[0, 0], forces[1, 0], forces[2, 0] if dim == 3 else 0.0]
        p_body = _dot(f0, _vec(V, 0))
        if planar:
            p_body = p_body + torques[2, 0] * W[2, 0]
        else:
            p_body = p_body + torques[0, 0] * W[0, 0] + torques[1, 0] * W[1, 0] + torques[2, 0] * W[2, 0]
        p_mark = 0.0
        for m in range(N):
            p_mark = p_mark + _dot(Fm[m], _vec(vel, m))
        ctx.eq("power_of_wrench_equals_minus_marker_power", p_body, -p_mark)


@scenario
def flow_forces_add(ctx, n_nodes):
    """FlowForces.apply_forces adds (does not overwrite) the flow forces / torques"""
    sopht_modules()
    from sopht.simulator.immersed_body import FlowForces

    class StubInteractor:
        def __init__(self):
            self.body_flow_forces = ctx.array("ff", (3, n_nodes))
            self.body_flow_torques = ctx.array("ft", (3, n_nodes - 1))
            self.calls = 0

        def compute_flow_forces_and_torques(self):
            self.calls += 1

    class System:
        pass

    it = StubInteractor()
    sysm = System()
    sysm.external_forces = ctx.array("ef", (3, n_nodes))
    sysm.external_torques = ctx.array("et", (3, n_nodes - 1))
    ef0, et0 = sysm.external_forces.copy(), sysm.external_torques.copy()
    FlowForces(it).apply_forces(sysm, time=0.0)
    ctx.claim("interactor_evaluated_once", it.calls == 1)
    ctx.eq_array("external_forces_accumulate", sysm.external_forces, ef0 + it.body_flow_forces)
    ctx.eq_array("external_torques_accumulate", sysm.external_torques, et0 + it.body_flow_torques)


@scenario
def fluid_plus_body_force_is_zero(ctx, body_kind, dim, layout="c"):
    """one __call__ (spread to the fluid) + compute_flow_forces_and_torques (transfer to the body) on a symbolic flow:
    dx^d * sum(eul_grid_forcing) + sum(body forces) = 0 (tolerance: the concrete weights sum to 1 up to rounding)"""
    _, _, sps, _ = sopht_modules()
    import sopht.simulator.immersed_body as spb

    B.install_proxy()
    B.proxy(False)
    grid = (16, 16) if dim == 2 else (12, 12, 12)
    dx = 1.0 / grid[-1]
    if body_kind == "rod":
        body = B.make_body("rod", n_elems=2)
        gcls, gkw = (spb.CosseratRodElementCentricForcingGrid, {}) if dim == 3 else (spb.CosseratRodEdgeForcingGrid, {})
    elif dim == 2:
        body = B.make_body("cylinder")
        gcls, gkw = spb.CircularCylinderForcingGrid, {"num_forcing_points": 6}
    else:
        body = B.make_body("sphere")
        gcls, gkw = spb.SphereForcingGrid, {"num_forcing_points_along_equator": 6}
    E = ctx.zeros((dim, *grid))
    if layout == "interior":
        # the flow solver's forcing field as the interior window of a ghost-padded allocation (not C-contiguous)
        E = ctx.zeros((dim, *(n_ + 2 for n_ in grid)))[(slice(None),) + tuple(slice(1, -1) for _ in grid)]
    elif layout == "component_last":
        E = np.moveaxis(ctx.zeros((*grid, dim)), -1, 0)
    u = ctx.array("u", (dim, *grid))
    bound_vars(ctx, u)
    if body_kind == "rod":
        inter = spb.CosseratRodFlowInteraction(cosserat_rod=body, eul_grid_forcing_field=E, eul_grid_velocity_field=u, virtual_boundary_stiffness_coeff=2.0, virtual_boundary_damping_coeff=0.5,
                                               dx=dx, grid_dim=dim, forcing_grid_cls=gcls, real_t=ctx.real_t, **gkw)
    else:
        inter = spb.RigidBodyFlowInteraction(rigid_body=body, eul_grid_forcing_field=E, eul_grid_velocity_field=u, virtual_boundary_stiffness_coeff=2.0, virtual_boundary_damping_coeff=0.5,
                                             dx=dx, grid_dim=dim, forcing_grid_cls=gcls, real_t=ctx.real_t, **gkw)
    N = inter.forcing_grid.num_lag_nodes
    # symbolic coupling state; marker positions stay concrete (cell indices concrete), body velocity symbolic
    for nm in ("lag_grid_position_mismatch_field", "lag_grid_velocity_mismatch_field", "lag_grid_forcing_field", "lag_grid_flow_velocity_field"):
        arr = getattr(inter, nm)
        new = ctx.array(nm, arr.shape)
        bound_vars(ctx, new)
        if ctx.sym:
            setattr(inter, nm, new)
        else:
            arr[...] = new
    if ctx.sym:
        from symsopht.symarray import SymArray

        for nm in ("local_eul_grid_support_of_lag_grid", "interp_weights"):
            setattr(inter, nm, ctx.array(nm, getattr(inter, nm).shape))
        B.symbolise_grid(ctx, inter.forcing_grid, sphere=(body_kind == "sphere"))
        for nm in ("body_flow_forces", "body_flow_torques"):
            setattr(inter, nm, ctx.array(nm, getattr(inter, nm).shape))
    vb = ctx.array("vb", body.velocity_collection.shape)
    bound_vars(ctx, vb)
    if ctx.sym:
        body.velocity_collection = vb
        if body_kind == "rod":
            body.mass = ctx.const_array(body.mass)
    else:
        body.velocity_collection[...] = vb
    B.proxy(ctx.sym)
    try:
        inter()
        inter.compute_flow_forces_and_torques()
    finally:
        B.proxy(False)
    vol = dx**dim
    for a in range(dim):
        tot_fluid = 0.0
        for v in np.asarray(E[a]).reshape(-1):
            tot_fluid = tot_fluid + v
        tot_body = 0.0
        for v in np.asarray(inter.body_flow_forces[a]).reshape(-1):
            tot_body = tot_body + v
        close(ctx, f"fluid_force_integral_plus_body_force[{a}]", tot_fluid * vol + tot_body, 0.0, 1e-9)


def main():
    chk = Check("C08", "action = reaction: net force, couples, lab-frame moment balance and power for every forcing grid on symbolic poses (symbolic execution of the real grids + PyElastica helpers, z3)",
                functions=["CosseratRod{Nodal,ElementCentric,Edge,Surface}ForcingGrid.transfer_forcing_from_grid_to_body", "TwoDimensionalCylinderForcingGrid / ThreeDimensionalRigidBodyForcingGrid (cylinder, sphere, plane)",
                           "ImmersedBodyFlowInteraction.__call__ / compute_flow_forces_and_torques", "FlowForces.apply_forces", "elastica._linalg._batch_cross/_batch_matvec/_batch_matrix_transpose, contact_utils._node_to_element_velocity/_elements_to_nodes_inplace (run from source)"],
                files=["sopht/simulator/immersed_body/cosserat_rod/cosserat_rod_forcing_grids.py", "sopht/simulator/immersed_body/rigid_body/rigid_body_forcing_grids.py",
                       "sopht/simulator/immersed_body/immersed_body_flow_interaction.py", "sopht/simulator/immersed_body/flow_forces.py", "sopht/numeric/immersed_boundary_ops/VirtualBoundaryForcing.py"])
    chk.maybe_replay()
    sopht_modules()
    ne_list = [2] if chk.quick else [2, 3]
    tapers = ["uniform", "linear", "thin"]
    for ne in ne_list:
        for taper in tapers:
            for dim in (2, 3):
                chk.add(transfer_balance, grid_kind="nodal", body_kind="rod", dim=dim, n_elems=ne, taper=taper, grid_kw={})
                chk.add(transfer_balance, grid_kind="element", body_kind="rod", dim=dim, n_elems=ne, taper=taper, grid_kw={})
            chk.add(transfer_balance, grid_kind="edge", body_kind="rod", dim=2, n_elems=ne, taper=taper, grid_kw={})
            for dens in ((4,) if chk.quick else (4, 6)):
                for cap in (False, True):
                    chk.add(transfer_balance, grid_kind="surface", body_kind="rod", dim=3, n_elems=ne, taper=taper, grid_kw={"density": dens, "cap": cap})
    chk.add(transfer_balance, grid_kind="cylinder2d", body_kind="cylinder", dim=2, n_elems=1, taper="uniform", grid_kw={"n": 5})
    chk.add(transfer_balance, grid_kind="cylinder3d", body_kind="cylinder", dim=3, n_elems=1, taper="uniform", grid_kw={"n": 2})
    chk.add(transfer_balance, grid_kind="sphere", body_kind="sphere", dim=3, n_elems=1, taper="uniform", grid_kw={"n": 6})
    chk.add(transfer_balance, grid_kind="plane", body_kind="plane", dim=3, n_elems=1, taper="uniform", grid_kw={"n": 3})
    # a forcing grid of the same class built earlier in the process for another body (other element count / marker density)
    chk.add(transfer_balance, grid_kind="nodal", body_kind="rod", dim=3, n_elems=2, taper="uniform", grid_kw={}, _earlier=[{"n_elems": 3}, {"dim": 2}])
    chk.add(transfer_balance, grid_kind="surface", body_kind="rod", dim=3, n_elems=2, taper="uniform", grid_kw={"density": 4, "cap": True}, _earlier=[{"grid_kw": {"density": 6, "cap": False}, "n_elems": 3}])
    chk.add(transfer_balance, grid_kind="cylinder2d", body_kind="cylinder", dim=2, n_elems=1, taper="uniform", grid_kw={"n": 5}, _earlier=[{"grid_kw": {"n": 3}}])
    chk.add(transfer_balance, grid_kind="sphere", body_kind="sphere", dim=3, n_elems=1, taper="uniform", grid_kw={"n": 6}, _earlier=[{"grid_kw": {"n": 4}}, {"grid_kind": "plane", "body_kind": "plane", "grid_kw": {"n": 3}}])
    chk.add(flow_forces_add, n_nodes=3)
    for bk, dim in (("rod", 3), ("rod", 2), ("cylinder", 2), ("sphere", 3)):
        chk.add(fluid_plus_body_force_is_zero, body_kind=bk, dim=dim)
    # the caller's Eulerian forcing field need not be C-contiguous
    chk.add(fluid_plus_body_force_is_zero, body_kind="cylinder", dim=2, layout="interior")
    chk.add(fluid_plus_body_force_is_zero, body_kind="rod", dim=2, layout="component_last")
    chk.bounds = [f"rods with n_elems in {ne_list}, taper profiles {tapers}, surface density 4 (thorough: 6), caps on/off; cylinder (5 / 2xN markers), sphere (equator 6), plane (3xN)",
                  "poses: node positions, nine director entries per element (no orthonormality assumed), velocities, angular velocities, radii>0, masses>0, tangents, marker forces, prior force/torque contents all symbolic"]
    chk.outside = ["more elements / denser grids (the transfer loops are per element)", "rounding", "PyElastica's time stepper"]
    chk.assumptions = ["markers of element k as laid out by the grid's own index bookkeeping (start_idx/end_idx; edge grid: k, n+k, 2n+k)",
                       "2-D rod grids: moment balance claimed for the z component", "fluid+body balance: concrete marker positions, tolerance 1e-9 for inputs in [-1,1] (weights sum to one up to rounding)"]
    chk.run()
    chk.finish()


if __name__ == "__main__":
    main()
