#!/usr/bin/env python
"""C15 - results do not depend on thread count or iteration order.

(a) per generated kernel, ALL sizes and cells (QF_LIA over the backend IR): for two distinct cells
    c != c' of the iteration box (integer solver variables; sizes symbolic), no address written by c
    is read or written by c' within one field.
(b) call sites: every kernel call made during symbolic runs of simulator / solver / coupling
    configurations is logged with the memory extent of each bound array; for every pair (written
    parameter, other parameter) on the same root buffer a QF_LIA query shows that no two distinct
    cells touch the same address (identical view + same cell is the only admitted overlap).
(c) spreading kernels are serial loops over markers (syntactic side condition on the real source).
"""
import ast
import inspect
import os
import sys
import textwrap
import time

sys.path.insert(0, os.path.dirname(os.path.dirname(os.path.abspath(__file__))))
import numpy as np  # noqa: E402
import z3  # noqa: E402

from checks.common import Check, Claim, scenario, sopht_modules  # noqa: E402
from symsopht import smt  # noqa: E402
from checks import c15_sites  # noqa: E402,F401


def _z3_check(cons, tag, timeout=20000):
    s = z3.Solver()
    s.set("timeout", timeout)
    s.add(*cons)
    t0 = time.time()
    r = str(s.check())
    dt = time.time() - t0
    smt.STATS.record(tag, r, dt, 0)
    model = None
    if r == "sat":
        m = s.model()
        model = {str(d): m[d].as_long() for d in m.decls() if z3.is_int_value(m[d])}
    return r, model, dt


def instantiate_all_generators(real_t=np.float64, num_threads=4):
    """call every generator of eulerian_grid_ops with every option combination (kernel handles are
    collected by the shim); returns {generator name: [handles]}"""
    from symsopht import load

    _, spne, _, _ = sopht_modules()
    out = {}
    opts = {
        "width": [1, 2, 3, 4],
        "field_type": ["scalar", "vector"],
        "reset_ghost_zone": [True, False],
        "filter_type": ["multiplicative", "convolution"],
    }
    for name in sorted(n for n in spne.__all__ if n.startswith("gen_")):
        gen = getattr(spne, name)
        sig = inspect.signature(gen)
        base = {"real_t": real_t, "num_threads": num_threads}
        if "dx" in sig.parameters:
            base["dx"] = 0.125
        for g in ("x_grid_field", "y_grid_field", "z_grid_field"):
            if g in sig.parameters:
                nd = 3 if "z_grid_field" in sig.parameters else 2
                base[g] = np.zeros((8,) * nd)
        if "blend_width" in sig.parameters:
            base["blend_width"] = 0.1
        if "filter_order" in sig.parameters:
            base["filter_order"] = 2
            base["filter_flux_buffer"] = np.zeros((6, 6, 6))
            base["field_buffer"] = np.zeros((6, 6, 6))
        if "midstep_buffer_vector_field" in sig.parameters:
            base["midstep_buffer_vector_field"] = np.zeros((3, 6, 6, 6))
        keys = [k for k in opts if k in sig.parameters]
        combos = [{}]
        for k in keys:
            combos = [dict(c, **{k: v}) for c in combos for v in opts[k]]
        for c in combos:
            n0 = len(load.HANDLES)
            gen(**base, **c)
            out.setdefault(name, []).extend(load.HANDLES[n0:])
    return out


@scenario
def kernel_cells_independent(ctx, generator):
    """(a): all handles created by one generator (all option combinations)"""
    from symsopht.iranalysis import IRInfo

    if not _GEN_HANDLES:
        _GEN_HANDLES.update(instantiate_all_generators())
    handles = _GEN_HANDLES[generator]
    if not ctx.sym:
        return _replay_order_dependence(ctx, handles)
    seen = set()
    for h in handles:
        key = (h.name, str(h.assignments), str(getattr(h.config, "iteration_slice", None)))
        if key in seen:
            continue
        seen.add(key)
        ir = IRInfo(h)
        sizes_pos = [v >= 1 for n, v in ir.zvars.items() if n.startswith("_size_")]
        # all fields of one kernel share their spatial shape (checked by the JIT wrapper and by our interpreter)
        same_shape = []
        by_dim = {}
        for n, (f, d) in ir.size_sym.items():
            by_dim.setdefault(d, []).append(ir.zint(n))
        for d, vs in by_dim.items():
            same_shape += [vs[0] == v for v in vs[1:]]
        sub, box1 = ir.box()
        sub2, box2 = ir.box("_p")
        distinct = z3.Or(*[a != b for (_, a), (_, b) in zip(sub, sub2)]) if sub else z3.BoolVal(False)
        nq = 0
        for (fw, is_w, iw) in ir.accesses:
            if not is_w:
                continue
            for (fx, xw, ix) in ir.accesses:
                if fx != fw:
                    continue
                ix2 = {d: z3.substitute(e, *[(a, b) for (a, b) in [(s[0], s2[1]) for s, s2 in zip(sub, sub2)]]) for d, e in ix.items()}
                same_addr = z3.And(*[iw[d] == ix2[d] for d in iw])
                r, model, dt = _z3_check(sizes_pos + same_shape + [box1, box2, distinct, same_addr], "cells_independent")
                nq += 1
                name = f"no_cross_cell_conflict:{h.name}:{fw}:{'w' if xw else 'r'}{nq}"
                ctx.claims.append(Claim(name, r, model, time_=dt))
                if r != "unsat":
                    ctx.nfail += 1
        # structure: unit steps, omp pragma (if any) only outside the outermost loop nest body
        ok_steps = all(st == 1 for *_, st in ir.loops)
        ctx.claims.append(Claim(f"unit_loop_steps:{h.name}", "unsat" if ok_steps else "sat", {}, trivial=False))
        if not ok_steps:
            ctx.nfail += 1


def _replay_order_dependence(ctx, handles):
    """numeric replay: interpret the kernel cell by cell in forward and in reversed loop order on
    random data of the model's sizes; different results = schedule dependence on the real IR"""
    from symsopht import interp
    from symsopht.iranalysis import IRInfo
    from symsopht.symarray import constant, to_float

    hname = ctx.target.split(":")[1]
    rng = np.random.default_rng(0)
    for h in handles:
        if h.name != hname:
            continue
        ir = IRInfo(h)
        shape = {}
        for n, (f, d) in ir.size_sym.items():
            shape[d] = max(8, int(ctx.model.get(n, 8)))
        nd = max(len(f.spatial_shape) for f in ir.fields.values()) if False else max(len(x[2]) for x in ir.accesses)
        shp = tuple(shape.get(d, 8) for d in range(nd))
        base = {name: rng.standard_normal(shp) for name in ir.fields}
        scal = {p.name: 0.5 for p in h.kernel.parameters if not p.properties}
        res = []
        for rev in (False, True):
            arrs = {k: constant(v) for k, v in base.items()}
            interp.run_sequential(h, {**arrs, **scal}, reverse=rev)
            res.append({k: to_float(v) for k, v in arrs.items()})
        differ = any(not np.allclose(res[0][k], res[1][k], rtol=1e-12, atol=1e-12) for k in base)
        ctx.replay_result = (bool(differ), f"kernel {h.name} on shape {shp}: forward vs reversed cell order {'differ' if differ else 'agree'}")
        if differ:
            return


def _race_demonstration(module, sizes=(3, 64, 512, 700, 4096), reps=4):
    """replay of (c) on the real (JIT-compiled) kernels: spreading from overlapping markers with one numba thread and with all
    threads must give bit-identical fields.  Returns a description of the first difference, or None."""
    import importlib

    import numba

    mod = importlib.import_module(module)
    dim = 3 if module.endswith("3D") else 2
    gen = getattr(mod, f"generate_lagrangian_to_eulerian_grid_interpolation_kernel_{dim}d")
    nthreads = numba.config.NUMBA_NUM_THREADS
    rng = np.random.default_rng(0)
    try:
        for n in sizes:
            for nc in (1, dim):
                k = gen(num_lag_nodes=n, interp_kernel_width=2, n_components=nc)
                grid = (12,) * dim
                nearest = rng.integers(4, 7, size=(dim, n))  # heavily overlapping 4^d windows
                W = rng.uniform(0.1, 1.0, size=(4,) * dim + (n,))
                F = rng.uniform(-1.0, 1.0, size=(n,) if nc == 1 else (dim, n))
                shape = grid if nc == 1 else (dim, *grid)
                numba.set_num_threads(1)
                ref = np.zeros(shape)
                k(ref, F, W, nearest)
                for _ in range(reps):
                    numba.set_num_threads(nthreads)
                    out = np.zeros(shape)
                    k(out, F, W, nearest)
                    if not np.array_equal(out, ref):
                        return f"{n} markers, {nc} component(s): result with {nthreads} threads differs from the 1-thread result (max diff {np.abs(out - ref).max():.3g})"
    finally:
        numba.set_num_threads(nthreads)
    return None


@scenario
def spreading_is_serial(ctx, module):
    """(c) lagrangian->eulerian kernels are @njit without parallel=True and loop over markers with the builtin range
    (syntactic predicate on the real source); a refuted predicate is replayed as a race demonstration on the compiled kernels"""
    import importlib

    sopht_modules()
    if not ctx.sym:
        why = _race_demonstration(module)
        ctx.replay_result = (True, why) if why else (False, "1-thread and all-thread spreading agree bitwise for 3..4096 overlapping markers")
        return
    mod = importlib.import_module(module)
    src = inspect.getsource(mod)
    tree = ast.parse(src)
    n = 0
    for node in ast.walk(tree):
        if isinstance(node, ast.FunctionDef) and "lagrangian_to_eulerian_grid_interpolation_kernel" in node.name and not node.name.startswith("generate_"):
            n += 1
            par = False
            for d in node.decorator_list:
                if isinstance(d, ast.Call):
                    for kw in d.keywords:
                        if kw.arg == "parallel" and not (isinstance(kw.value, ast.Constant) and kw.value.value is False):
                            par = True
            # every loop of the kernel iterates over the builtin range (an alias could stand for numba.prange)
            loops_ok = all(isinstance(x.iter, ast.Call) and isinstance(x.iter.func, ast.Name) and x.iter.func.id == "range" for x in ast.walk(node) if isinstance(x, ast.For))
            ok = not par and loops_ok
            ctx.claims.append(Claim(f"serial_marker_loop:{node.name}", "unsat" if ok else "sat", {}, trivial=False))
            if not ok:
                ctx.nfail += 1
    if n == 0:
        raise RuntimeError("no spreading kernel found in " + module)
    # every code variant the generator produces over marker counts 1..1100 and 2^k-1..2^k+1: nothing numba-parallel in its closure
    from checks.common import size_variants

    dim = 3 if module.endswith("3D") else 2
    gen = getattr(mod, f"generate_lagrangian_to_eulerian_grid_interpolation_kernel_{dim}d")
    sizes = list(range(1, 1101)) + [2 ** k + d for k in range(11, 14) for d in (-1, 0, 1)]
    for nc in (1, dim):
        for nv in size_variants(lambda n_: gen(num_lag_nodes=n_, interp_kernel_width=2, n_components=nc), sizes):
            k = gen(num_lag_nodes=nv, interp_kernel_width=2, n_components=nc)
            k = getattr(k, "py_func", k)
            bad = []
            for cname, cell in zip(k.__code__.co_freevars, k.__closure__ or ()):
                v = cell.cell_contents
                if (getattr(v, "__module__", "") or "").startswith("numba") and getattr(v, "__name__", "") in ("prange", "pndindex", "parfor"):
                    bad.append(cname)
            ctx.claims.append(Claim(f"serial_marker_loop:code_variant(markers>={nv},components={nc})", "unsat" if not bad else "sat", {}, trivial=False))
            if bad:
                ctx.nfail += 1


_GEN_HANDLES: dict = {}


def main():
    chk = Check("C15", "schedule independence: cross-cell independence of every kernel for all sizes (QF_LIA on the backend IR) + call-site aliasing queries",
                functions=["every gen_* of sopht.numeric.eulerian_grid_ops (all option combinations)", "lagrangian_to_eulerian_grid_interpolation kernels (2D/3D)"],
                files=["sopht/utils/pyst_kernel_config.py", "sopht/numeric/immersed_boundary_ops/EulerianLagrangianGridCommunicator2D.py",
                       "sopht/numeric/immersed_boundary_ops/EulerianLagrangianGridCommunicator3D.py"])
    chk.maybe_replay()
    _GEN_HANDLES.update(instantiate_all_generators())
    for g in sorted(_GEN_HANDLES):
        chk.add(kernel_cells_independent, generator=g)
    for m in ("sopht.numeric.immersed_boundary_ops.EulerianLagrangianGridCommunicator2D", "sopht.numeric.immersed_boundary_ops.EulerianLagrangianGridCommunicator3D"):
        chk.add(spreading_is_serial, module=m)
    c15_sites.schedule(chk)
    chk.bounds = ["(a) unbounded in grid sizes and cells (integer solver variables); one query per (written access, access to the same field) of every kernel",
                  "(b) call sites of the enumerated simulator/solver/coupling configurations at the enumerated shapes"]
    chk.outside += ["OpenMP runtime, RESTRICT qualifiers emitted by pystencils 2.0, numpy's handling of overlapping slice assignment", "FFTW/LAPACK internal threading"]
    chk.assumptions = ["fields of one kernel call have equal spatial shape (enforced by the JIT wrapper)", "a field's elements are distinct addresses iff their index tuples differ (true for non-overlapping strides; overlapping views are the call-site part (b))",
                       "(c) is a syntactic predicate on the real source, not a solver verdict"]
    chk.run()
    chk.finish()


if __name__ == "__main__":
    main()
