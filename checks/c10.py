#!/usr/bin/env python
"""C10 - virtual-boundary feedback is the documented PI law over any call history.

The real ImmersedBodyFlowInteraction / VirtualBoundaryForcing run symbolically from an ARBITRARY
state (integral X, mismatch V, force F, clock, Eulerian forcing content, every scratch array are
solver variables) through every operation sequence up to a bounded length over
{evaluate, evaluate-body-forces, step(dt_i), move body, change flow}; after every operation the
whole state is compared with the closed-form reference (length-1 sequences = the inductive step).
"""
import itertools
import os
import sys

sys.path.insert(0, os.path.dirname(os.path.dirname(os.path.abspath(__file__))))
import numpy as np  # noqa: E402

from checks.common import Check, explore, scenario, sopht_modules  # noqa: E402

OPS = ["eval", "bodyforces", "step", "move", "flow"]
LAYOUTS = {
    2: [np.array([[0.43, 0.52], [0.37, 0.61]]), np.array([[0.55, 0.47], [0.49, 0.40]])],  # (dim, n) positions, x first
    3: [np.array([[0.43, 0.52], [0.37, 0.45], [0.40, 0.52]]), np.array([[0.55, 0.47], [0.49, 0.40], [0.45, 0.38]])],
}


def _stub_grid_cls(sps_mod):
    from sopht.simulator.immersed_body import ImmersedBodyForcingGrid

    class StubGrid(ImmersedBodyForcingGrid):
        """forcing grid whose marker positions/velocities are set by the harness"""

        def __init__(self, grid_dim, num_lag_nodes, spacing, harness):
            super().__init__(grid_dim, num_lag_nodes)
            self.spacing = spacing
            self.harness = harness

        def compute_lag_grid_position_field(self):
            self.position_field[...] = self.harness["pos"]

        def compute_lag_grid_velocity_field(self):
            self.velocity_field[...] = self.harness["vel"]

        def transfer_forcing_from_grid_to_body(self, body_flow_forces, body_flow_torques, lag_grid_forcing_field):
            body_flow_forces[...] = 0 * body_flow_forces
            for a in range(self.grid_dim):
                acc = 0.0
                for v in lag_grid_forcing_field[a]:
                    acc = acc - v
                body_flow_forces[a, 0] = acc

        def get_maximum_lagrangian_grid_spacing(self):
            return self.spacing

    return StubGrid


def _sum(a):
    acc = 0.0
    for v in np.asarray(a).reshape(-1):
        acc = acc + v
    return acc


def _build(ctx, dim, grid, tag, E, u, reset, harness, k, c, h, symbolise=True):
    _, _, sps, _ = sopht_modules()
    from sopht.simulator.immersed_body import ImmersedBodyFlowInteraction

    n = 2
    dx = 1.0 / grid[-1]
    forces = ctx.array(f"{tag}_bodyforces", (3, 1))
    torques = ctx.array(f"{tag}_bodytorques", (3, 1))
    inter = ImmersedBodyFlowInteraction(
        eul_grid_forcing_field=E, eul_grid_velocity_field=u, body_flow_forces=forces, body_flow_torques=torques, forcing_grid_cls=_stub_grid_cls(sps),
        virtual_boundary_stiffness_coeff=k, virtual_boundary_damping_coeff=c, dx=dx, grid_dim=dim, real_t=ctx.real_t, enable_eul_grid_forcing_reset=reset,
        num_lag_nodes=n, spacing=h, harness=harness)
    if symbolise:
        symbolise_interactors(ctx, [inter], [tag])
    t0 = ctx.scalar(f"{tag}_t0")
    inter.time = t0
    return inter, forces, torques, dx


WORK_ARRAYS = ["lag_grid_position_mismatch_field", "lag_grid_velocity_mismatch_field", "lag_grid_forcing_field", "lag_grid_flow_velocity_field", "local_eul_grid_support_of_lag_grid", "interp_weights"]


def symbolise_interactors(ctx, inters, tags):
    """arbitrary prior state for every work array of the interactors and of their grids.  All interactors are walked in ONE
    pass of the object-graph walker, so arrays that share memory (within or ACROSS interactors) stay aliased."""
    from symsopht import graph

    def policy(path, arr):
        if arr.dtype.kind in "iu":
            return ("keep", None)
        idx = int(path.split("[", 1)[1].split("]", 1)[0])
        name = path.split(".")[-1]
        if name in WORK_ARRAYS:
            return ("fresh", f"{tags[idx]}_{name}")
        if name in ("position_field", "velocity_field") and ".forcing_grid." in path:
            return ("fresh", f"{tags[idx]}_grid_{name}")
        return ("keep", None)

    if ctx.sym:
        graph.symbolise(list(inters), policy, name="obj")
    else:
        graph.fill_numeric(list(inters), policy, lambda n, d: ctx._num(n, d), name="obj")


def _ref_interp(inter, u, dim, dx):
    """sum over the 4^d window of weight * u * dx^d, written out by the harness"""
    n = inter.interp_weights.shape[-1]
    out = []
    for a in range(dim):
        row = []
        for i in range(n):
            ix = [int(inter.nearest_eul_grid_index_to_lag_grid[d, i]) for d in range(dim)]
            acc = 0.0
            for off in itertools.product(range(4), repeat=dim):
                cell = tuple(ix[dim - 1 - ax] - 1 + off[ax] for ax in range(dim))
                acc = acc + inter.interp_weights[off + (i,)] * u[(a, *cell)]
            row.append(acc * dx**dim)
        out.append(row)
    return out


def _ref_spread(inter, F, dim, shape):
    """dict cell -> increment of the Eulerian forcing"""
    n = inter.interp_weights.shape[-1]
    inc = {}
    for a in range(dim):
        for i in range(n):
            ix = [int(inter.nearest_eul_grid_index_to_lag_grid[d, i]) for d in range(dim)]
            for off in itertools.product(range(4), repeat=dim):
                cell = (a,) + tuple(ix[dim - 1 - ax] - 1 + off[ax] for ax in range(dim))
                inc[cell] = inc.get(cell, 0.0) + inter.interp_weights[off + (i,)] * F[a][i]
    return inc


@scenario
def history(ctx, dim, seq, reset, layout="c"):
    from checks.c11 import _laid_out

    grid = (8, 8) if dim == 2 else (8, 8, 8)
    n = 2
    E = _laid_out(ctx, "E0", (dim, *grid), layout)  # the caller's forcing field: any ndarray view
    u = ctx.array("u0", (dim, *grid))
    harness = {"pos": LAYOUTS[dim][0].astype(ctx.real_t), "vel": ctx.array("vb0", (dim, n))}
    k = ctx.scalar("k", default=3.0)
    c = ctx.scalar("c", default=0.5)
    inter, forces, torques, dx = _build(ctx, dim, grid, "b", E, u, reset, harness, k, c, 0.1)
    ksc, csc = k * 0.1 ** (dim - 1), c * 0.1 ** (dim - 1)
    # reference state
    X = inter.lag_grid_position_mismatch_field.copy()
    V = inter.lag_grid_velocity_mismatch_field.copy()
    F = inter.lag_grid_forcing_field.copy()
    t = inter.time
    Er = E.copy()
    layout = 0
    for step_i, op in enumerate(seq):
        u_before, vb_before = u.copy(), harness["vel"].copy()
        forces_before = forces.copy()
        if op in ("eval", "bodyforces"):
            if op == "eval":
                inter()
            else:
                inter.compute_flow_forces_and_torques()
            Iu = _ref_interp(inter, u_before, dim, dx)
            V = ctx.zeros((dim, n))
            for a in range(dim):
                for i in range(n):
                    V[a, i] = Iu[a][i] - vb_before[a, i]
            F = ksc * X + csc * V
            for a in range(dim):
                for i in range(n):
                    ctx.eq(f"s{step_i}:{op}:flow_velocity_is_interpolation[{a},{i}]", inter.lag_grid_flow_velocity_field[a, i], Iu[a][i])
            if op == "eval":
                if reset:
                    Er = Er * 0
                inc = _ref_spread(inter, F, dim, grid)
                Er = Er.copy()
                for cell, v in inc.items():
                    Er[cell] = Er[cell] + v
            else:
                exp = forces_before * 0
                for a in range(dim):
                    exp[a, 0] = -_sum(F[a])
                ctx.eq_array(f"s{step_i}:bodyforces:transfer_called_with_current_force", forces, exp)
        elif op == "step":
            dt = ctx.scalar(f"dt{step_i}", default=0.01 * (step_i + 1))
            inter.time_step(dt)
            X = X + dt * V
            t = t + dt
        elif op == "move":
            layout = 1 - layout
            harness["pos"] = LAYOUTS[dim][layout].astype(ctx.real_t)
            harness["vel"] = ctx.array(f"vb{step_i}", (dim, n))
        elif op == "flow":
            u[...] = ctx.array(f"u{step_i}", (dim, *grid))
        # full state after the operation
        ctx.eq_array(f"s{step_i}:{op}:integral_X", inter.lag_grid_position_mismatch_field, X)
        ctx.eq_array(f"s{step_i}:{op}:mismatch_V", inter.lag_grid_velocity_mismatch_field, V)
        ctx.eq_array(f"s{step_i}:{op}:force_F", inter.lag_grid_forcing_field, F)
        ctx.eq(f"s{step_i}:{op}:clock", inter.time, t)
        ctx.eq_array(f"s{step_i}:{op}:eulerian_forcing", E, Er)
        if op not in ("flow",):
            ctx.same_array(f"s{step_i}:{op}:flow_velocity_untouched", u, u_before)
        if op not in ("move",):
            ctx.same_array(f"s{step_i}:{op}:body_velocity_untouched", harness["vel"], vb_before)
    # the interactor only holds a read-only view of the flow velocity
    ctx.claim("flow_velocity_view_is_read_only", not inter.eul_grid_velocity_field.flags.writeable)


@scenario
def coefficient_scaling(ctx, dim):
    grid = (8, 8) if dim == 2 else (8, 8, 8)
    E, u = ctx.array("E0", (dim, *grid)), ctx.array("u0", (dim, *grid))
    k = ctx.scalar("k", positive=True, default=3.0)
    c = ctx.scalar("c", positive=True, default=0.5)
    h = ctx.scalar("h", positive=True, default=0.2)

    def run():
        harness = {"pos": LAYOUTS[dim][0], "vel": ctx.zeros((dim, 2))}
        inter, *_ = _build(ctx, dim, grid, "b", E, u, False, harness, k, c, h)
        ctx.eq("stiffness_scaled_by_h^(d-1)", inter.virtual_boundary_stiffness_coeff, k * h ** (dim - 1))
        ctx.eq("damping_scaled_by_h^(d-1)", inter.virtual_boundary_damping_coeff, c * h ** (dim - 1))
        return True

    res = explore(ctx, run)
    ctx.note(f"constructor paths: {len(res)}")
    ctx.claim("three_spacing_regimes_explored", (not ctx.sym) or len(res) == 3)


@scenario
def two_bodies(ctx, dim, order, reset_second):
    grid = (8, 8) if dim == 2 else (8, 8, 8)
    E, u = ctx.array("E0", (dim, *grid)), ctx.array("u0", (dim, *grid))
    E0 = E.copy()
    hs = [{"pos": LAYOUTS[dim][0].astype(ctx.real_t), "vel": ctx.array("vbA", (dim, 2))}, {"pos": LAYOUTS[dim][1].astype(ctx.real_t), "vel": ctx.array("vbB", (dim, 2))}]
    k, c = ctx.scalar("k", default=2.0), ctx.scalar("c", default=0.25)
    A, *_ = _build(ctx, dim, grid, "A", E, u, False, hs[0], k, c, 0.1, symbolise=False)
    B, *_ = _build(ctx, dim, grid, "B", E, u, reset_second, hs[1], k, c, 0.1, symbolise=False)
    symbolise_interactors(ctx, [A, B], ["A", "B"])
    dxv = 1.0 / grid[-1]
    XA, XB = A.lag_grid_position_mismatch_field.copy(), B.lag_grid_position_mismatch_field.copy()
    first, second = (A, B) if order == "AB" else (B, A)
    first()
    second()
    ksc, csc = k * 0.1 ** (dim - 1), c * 0.1 ** (dim - 1)

    def force(inter, X, h):
        Iu = _ref_interp(inter, u, dim, dxv)
        V = ctx.zeros((dim, 2))
        for a in range(dim):
            for i in range(2):
                V[a, i] = Iu[a][i] - h["vel"][a, i]
        return ksc * X + csc * V

    FA, FB = force(A, XA, hs[0]), force(B, XB, hs[1])
    incA, incB = _ref_spread(A, FA, dim, grid), _ref_spread(B, FB, dim, grid)
    exp = E0.copy()
    if reset_second and order == "AB":
        exp = exp * 0  # B's call overwrites the field, then adds its own
        for cell, v in incB.items():
            exp[cell] = exp[cell] + v
    elif reset_second and order == "BA":
        exp = exp * 0
        for inc in (incB, incA):
            for cell, v in inc.items():
                exp[cell] = exp[cell] + v
    else:
        for inc in (incA, incB):
            for cell, v in inc.items():
                exp[cell] = exp[cell] + v
    ctx.eq_array("shared_forcing_field", E, exp)
    # each body's own coupling state is untouched by the other body's evaluation, and its forcing step integrates ITS mismatch
    VA = FA * 0
    VB = FB * 0
    IuA, IuB = _ref_interp(A, u, dim, dxv), _ref_interp(B, u, dim, dxv)
    for a in range(dim):
        for i in range(2):
            VA[a, i] = IuA[a][i] - hs[0]["vel"][a, i]
            VB[a, i] = IuB[a][i] - hs[1]["vel"][a, i]
    ctx.eq_array("body_A_mismatch_survives_body_B_evaluation", A.lag_grid_velocity_mismatch_field, VA)
    ctx.eq_array("body_B_mismatch_survives_body_A_evaluation", B.lag_grid_velocity_mismatch_field, VB)
    ctx.eq_array("body_A_force_survives", A.lag_grid_forcing_field, FA)
    ctx.eq_array("body_B_force_survives", B.lag_grid_forcing_field, FB)
    dt = ctx.scalar("dt", default=0.02)
    A.time_step(dt)
    B.time_step(dt)
    ctx.eq_array("body_A_integral_uses_its_own_mismatch", A.lag_grid_position_mismatch_field, XA + dt * VA)
    ctx.eq_array("body_B_integral_uses_its_own_mismatch", B.lag_grid_position_mismatch_field, XB + dt * VB)


def main():
    chk = Check("C10", "virtual-boundary PI law: inductive step from an arbitrary state + bounded operation histories, coefficient scaling, two bodies sharing a field (symbolic execution, z3)",
                functions=["VirtualBoundaryForcing (all methods)", "ImmersedBodyFlowInteraction.__init__/__call__/compute_interaction_on_lag_grid/compute_flow_forces_and_torques",
                           "EulerianLagrangianGridCommunicator2D/3D kernels (as called)"],
                files=["sopht/numeric/immersed_boundary_ops/VirtualBoundaryForcing.py", "sopht/simulator/immersed_body/immersed_body_flow_interaction.py"])
    chk.maybe_replay()
    sopht_modules()
    maxlen = 3 if chk.quick else 5
    for dim in (2, 3):
        L = maxlen if dim == 2 else min(maxlen, 3)
        for n in range(1, L + 1):
            for seq in itertools.product(OPS, repeat=n):
                if dim == 3 and n == 3 and chk.quick and not (("eval" in seq and "step" in seq) or seq[-1] == "bodyforces"):
                    continue
                for reset in ((False, True) if n <= 2 else (False,)):
                    chk.add(history, dim=dim, seq=list(seq), reset=reset)
        for lay in ("interior", "fortran"):
            for reset in (False, True):
                chk.add(history, dim=dim, seq=["eval", "step", "eval"], reset=reset, layout=lay)
        chk.add(coefficient_scaling, dim=dim)
        for order in ("AB", "BA"):
            for rs in (False, True):
                chk.add(two_bodies, dim=dim, order=order, reset_second=rs)
    chk.bounds = [f"all operation sequences of length <= {maxlen} (2D) / <= {min(maxlen, 3)} (3D; quick: length-3 restricted to those containing eval and step or ending in a body-force evaluation) over {OPS}, reset mode on/off for length <= 2",
                  "initial state arbitrary symbolic (X, V, F, clock, Eulerian forcing, scratch arrays), dt_i, k, c, flow field, body velocities symbolic; 2 markers at enumerated (off-centre) positions, 2 layouts",
                  "two bodies x call orders x reset on the second body"]
    chk.outside = ["histories longer than the bound (covered by the inductive step: every sequence starts from an arbitrary state)", "symbolic marker offsets (C06/C07)", "rounding"]
    chk.assumptions = ["forcing grid replaced by a harness stub (positions/velocities set by the harness; transfer = minus the marker force sum): the real grids are C08/C09",
                       "reference interpolation/spreading use the interactor's own weights and index window (their correctness is C06/C07)"]
    chk.run()
    chk.finish()


if __name__ == "__main__":
    main()
