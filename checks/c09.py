#!/usr/bin/env python
"""C09 - marker kinematics are the rigid-section kinematics of the body.

Real bodies and grids (as C08); positions / velocities computed by the real
compute_lag_grid_position_field / compute_lag_grid_velocity_field on symbolic poses."""
import os
import sys

sys.path.insert(0, os.path.dirname(os.path.dirname(os.path.abspath(__file__))))
import numpy as np  # noqa: E402

from checks import bodies as B  # noqa: E402
from checks.c08 import _add, _markers_of_element, _scale, _sub, _vec  # noqa: E402
from checks.common import Check, scenario, sopht_modules  # noqa: E402


def _matT_vec(Q, k, v):
    """Q[:, :, k]^T v  (material -> lab)"""
    return [Q[0, i, k] * v[0] + Q[1, i, k] * v[1] + Q[2, i, k] * v[2] for i in range(3)]


def _run(ctx, grid_kind, body_kind, dim, n_elems, taper, grid_kw, directors, history="fresh"):
    sopht_modules()
    B.install_proxy()
    B.proxy(False)
    body = B.make_body(body_kind, n_elems=n_elems, taper=taper)
    grid = B.make_grid(grid_kind, body, dim=dim, **grid_kw)
    planar = dim == 2 and body_kind != "rod"
    st = B.symbolise_body(ctx, body, body_kind, planar=planar, planar_rod=(dim == 2 and body_kind == "rod"), directors=directors)
    B.symbolise_grid(ctx, grid, sphere=(grid_kind == "sphere"))
    B.proxy(ctx.sym)
    try:
        grid.compute_lag_grid_position_field()
        grid.compute_lag_grid_velocity_field()
        if history == "after_transfer":
            # call history of a coupled step: forces are transferred to the body, then (rates changed, pose not) only the
            # marker velocities are refreshed - they must still be those of the material points at the markers
            ne = body.n_elems if body_kind == "rod" else 1
            nn = ne + 1 if body_kind == "rod" else 1
            grid.transfer_forcing_from_grid_to_body(body_flow_forces=ctx.array("hist_forces", (3, nn)), body_flow_torques=ctx.array("hist_torques", (3, ne)),
                                                    lag_grid_forcing_field=ctx.array("hist_F", (dim, grid.num_lag_nodes)))
            grid.compute_lag_grid_velocity_field()
    finally:
        B.proxy(False)
    return body, grid, st


@scenario
def rigid_section_velocity(ctx, grid_kind, body_kind, dim, n_elems, taper, grid_kw, history="fresh"):
    """v_m = v_c + (Q^T omega) x (x_m - x_c) for every marker (directors: nine free entries)"""
    body, grid, st = _run(ctx, grid_kind, body_kind, dim, n_elems, taper, grid_kw, "free", history=history)
    X, V, W, Q = st["position_collection"], st["velocity_collection"], st["omega_collection"], st["director_collection"]
    ne = body.n_elems if body_kind == "rod" else 1
    pos, vel = grid.position_field, grid.velocity_field
    if grid_kind == "nodal":
        ctx.eq_array("nodal_positions_are_node_positions", pos, X[:dim])
        ctx.eq_array("nodal_velocities_are_node_velocities", vel, V[:dim])
        return
    planar = dim == 2 and body_kind != "rod"
    for k in range(ne):
        if body_kind == "rod":
            xc = _scale(_add(_vec(X, k), _vec(X, k + 1)), 0.5)
            mk, mk1 = st["mass"][k], st["mass"][k + 1]
            # mass-weighted node average written out independently: (m_k v_k + m_{k+1} v_{k+1}) / (m_k + m_{k+1})
            vc = [(mk * V[i, k] + mk1 * V[i, k + 1]) / (mk + mk1) for i in range(3)]
        else:
            xc, vc = _vec(X, 0), _vec(V, 0)
        if planar:
            om = [0.0, 0.0, Q[2, 2, k] * W[2, k]]
        else:
            om = _matT_vec(Q, k, [W[0, k], W[1, k], W[2, k]])
        for m in _markers_of_element(grid, grid_kind, k, ne):
            r = _sub(_vec(pos, m), xc)
            if dim == 2:
                r[2] = 0.0
            v_exp = _add(vc, B.cross(om, r))
            for i in range(dim):
                ctx.eq(f"marker_velocity_is_rigid_section_velocity[{i},{m}]", vel[i, m], v_exp[i])
            if grid_kind == "element":
                for i in range(dim):
                    ctx.eq(f"centre_marker_sits_on_element_centre[{i},{m}]", pos[i, m], xc[i])


def _lift_sq(ctx, lf):
    """exact |l|^2 of the float constants (as the kernel sees them)"""
    if ctx.sym:
        from symsopht import sym as S

        a = [S.lift(float(v)) for v in lf]
        return a[0] * a[0] + a[1] * a[1] + a[2] * a[2]
    return float(lf[0]) ** 2 + float(lf[1]) ** 2 + float(lf[2]) ** 2


@scenario
def marker_radius(ctx, grid_kind, n_elems, taper, grid_kw):
    """surface/edge markers sit at radius * cap ratio from the element centre (needs orthonormal directors: unit quaternion per element)"""
    dim = 2 if grid_kind == "edge" else 3
    LOCAL0 = None
    if grid_kind == "surface":
        # the grid's constant unit offsets (cos/sin of float angles), read before symbolisation
        sopht_modules()
        tmp = B.make_grid(grid_kind, B.make_body("rod", n_elems=n_elems, taper=taper), dim=dim, **grid_kw)
        LOCAL0 = np.array(tmp.local_frame_surface_points, dtype=float)
    body, grid, st = _run(ctx, grid_kind, "rod", dim, n_elems, taper, grid_kw, "quaternion")
    X = st["position_collection"]
    ne = body.n_elems
    pos = grid.position_field
    ctx.prefer = "nlsat"
    LOCAL = LOCAL0 if grid_kind == "surface" else None
    if grid_kind == "edge" and ctx.sym:
        # the edge grid builds its arm from the rod tangent: unit, in-plane tangents (what PyElastica maintains)
        t = st["tangents"]
        for k in range(ne):
            ctx.assume(t[0, k] * t[0, k] + t[1, k] * t[1, k] == 1)
    for k in range(ne):
        xc = _scale(_add(_vec(X, k), _vec(X, k + 1)), 0.5)
        for j, m in enumerate(_markers_of_element(grid, grid_kind, k, ne)):
            r = _sub(_vec(pos, m), xc)
            if dim == 2:
                r[2] = 0.0
            d2 = r[0] * r[0] + r[1] * r[1] + r[2] * r[2]
            if grid_kind == "surface":
                ratio = float(grid.grid_point_radius_ratio[m])
                lf = np.asarray(ctx.const_array(LOCAL[:, m]) if False else LOCAL[:, m], dtype=float)
                n2 = float(lf[0]) ** 2 + float(lf[1]) ** 2 + float(lf[2]) ** 2  # |local unit vector|^2 (cos^2 + sin^2 of float angles)
                single = int(grid.surface_grid_points[k]) == 1
                if single:
                    ctx.claim(f"centre_marker_has_zero_local_offset[{m}]", n2 == 0.0)
                else:
                    ctx.claim(f"local_offset_is_a_unit_vector_up_to_rounding[{m}]", abs(n2 - 1.0) <= 1e-12)
                rad2 = (st["radius"][k] * ratio) * (st["radius"][k] * ratio) * _lift_sq(ctx, lf)
            else:
                rad2 = 0.0 if j == 0 else st["radius"][k] * st["radius"][k]
            ctx.eq(f"marker_distance_squared_is_(radius*ratio)^2[{m}]", d2, rad2)


@scenario
def body_fixed_markers_follow_the_pose(ctx, grid_kind, body_kind, dim, grid_kw):
    """advance the pose by tau along (V, Omega): X' = X + tau V, Q' = Q (I - tau [Omega_lab]x)  i.e. directors rotate with the
    lab-frame angular velocity; the recomputed marker positions move by tau * v_marker up to O(tau^2)"""
    sopht_modules()
    B.install_proxy()
    B.proxy(False)
    body = B.make_body(body_kind)
    grid = B.make_grid(grid_kind, body, dim=dim, **grid_kw)
    planar = dim == 2
    st = B.symbolise_body(ctx, body, body_kind, planar=planar, directors="free")
    B.symbolise_grid(ctx, grid, sphere=(grid_kind == "sphere"))
    X, V, W, Q = st["position_collection"], st["velocity_collection"], st["omega_collection"], st["director_collection"]
    B.proxy(ctx.sym)
    try:
        grid.compute_lag_grid_position_field()
        grid.compute_lag_grid_velocity_field()
        p0, v0 = grid.position_field.copy(), grid.velocity_field.copy()
        tau = ctx.scalar("tau", default=1e-3)
        # lab-frame angular velocity of the frame
        if planar:
            om = [0.0, 0.0, Q[2, 2, 0] * W[2, 0]]
        else:
            om = _matT_vec(Q, 0, [W[0, 0], W[1, 0], W[2, 0]])
        # each director (row of Q, a lab vector) advances by tau * om x d
        Q2 = Q.copy()
        for i in range(3):
            d = [Q[i, 0, 0], Q[i, 1, 0], Q[i, 2, 0]]
            dd = B.cross(om, d)
            for j in range(3):
                Q2[i, j, 0] = d[j] + tau * dd[j]
        X2 = X + tau * V
        if ctx.sym:
            body.position_collection = X2
            body.director_collection = Q2
        else:
            body.position_collection[...] = X2
            body.director_collection[...] = Q2
        grid.compute_lag_grid_position_field()
        p1 = grid.position_field.copy()
    finally:
        B.proxy(False)
    # first-order statement: p1 - p0 - tau*v0 has no tau^0 / tau^1 part.  The update above is affine in tau, so the
    # remainder must vanish identically (the O(tau^2) term of the exact rotation is absent from this first-order advance).
    if grid_kind == "sphere":
        # the sphere's markers translate with its centre (offsets are kept in the lab frame); their velocities are
        # those of the material surface points, checked by rigid_section_velocity
        ctx.eq_array("sphere_markers_translate_with_the_centre", p1, p0 + tau * V[:, 0:1])
    else:
        ctx.eq_array("markers_advance_by_tau_times_marker_velocity", p1, p0 + tau * v0)
    if grid_kind == "sphere":
        ctx.eq_array("sphere_offsets_independent_of_directors", p0 - X[:, 0:1], ctx.const_array(grid.global_frame_relative_position_field) if not ctx.sym else grid.global_frame_relative_position_field)


def main():
    chk = Check("C09", "marker kinematics: rigid-section velocities, marker radii, body-fixed markers follow the pose (symbolic execution of the real grids on symbolic poses, z3)",
                functions=["compute_lag_grid_position_field / compute_lag_grid_velocity_field of all four rod grids and of the rigid-body grids (2D cylinder, 3D cylinder, sphere, plane)",
                           "elastica helpers _batch_cross/_batch_matvec/_batch_matrix_transpose/_node_to_element_velocity (from source)"],
                files=["sopht/simulator/immersed_body/cosserat_rod/cosserat_rod_forcing_grids.py", "sopht/simulator/immersed_body/rigid_body/rigid_body_forcing_grids.py",
                       "sopht/simulator/immersed_body/rigid_body/derived_rigid_bodies.py"])
    chk.maybe_replay()
    sopht_modules()
    ne_list = [2, 3] if chk.quick else [2, 3, 4]
    tapers = ["uniform", "linear", "thin"]
    for ne in ne_list:
        for taper in tapers:
            for dim in (2, 3):
                chk.add(rigid_section_velocity, grid_kind="nodal", body_kind="rod", dim=dim, n_elems=ne, taper=taper, grid_kw={})
                chk.add(rigid_section_velocity, grid_kind="element", body_kind="rod", dim=dim, n_elems=ne, taper=taper, grid_kw={})
            chk.add(rigid_section_velocity, grid_kind="edge", body_kind="rod", dim=2, n_elems=ne, taper=taper, grid_kw={})
            chk.add(marker_radius, grid_kind="edge", n_elems=ne, taper=taper, grid_kw={})
            for cap in (False, True):
                chk.add(rigid_section_velocity, grid_kind="surface", body_kind="rod", dim=3, n_elems=ne, taper=taper, grid_kw={"density": 4, "cap": cap})
                chk.add(marker_radius, grid_kind="surface", n_elems=ne, taper=taper, grid_kw={"density": 4, "cap": cap})
    # velocities refreshed after a force transfer without a position update (call history of the coupling loop)
    for gk, bk, dim, ne_, kw in (("nodal", "rod", 3, 2, {}), ("element", "rod", 2, 2, {}), ("edge", "rod", 2, 2, {}), ("surface", "rod", 3, 2, {"density": 4, "cap": True}),
                                 ("cylinder2d", "cylinder", 2, 1, {"n": 5}), ("cylinder3d", "cylinder", 3, 1, {"n": 2}), ("sphere", "sphere", 3, 1, {"n": 6}), ("plane", "plane", 3, 1, {"n": 3})):
        chk.add(rigid_section_velocity, grid_kind=gk, body_kind=bk, dim=dim, n_elems=ne_, taper="linear" if bk == "rod" else "uniform", grid_kw=kw, history="after_transfer")
    # a forcing grid of the same class built earlier in the process for another body (other element count / marker density)
    chk.add(rigid_section_velocity, grid_kind="nodal", body_kind="rod", dim=3, n_elems=2, taper="uniform", grid_kw={}, _earlier=[{"n_elems": 3}, {"dim": 2}])
    chk.add(rigid_section_velocity, grid_kind="surface", body_kind="rod", dim=3, n_elems=2, taper="uniform", grid_kw={"density": 4, "cap": True}, _earlier=[{"grid_kw": {"density": 6, "cap": False}, "n_elems": 3}])
    chk.add(rigid_section_velocity, grid_kind="cylinder2d", body_kind="cylinder", dim=2, n_elems=1, taper="uniform", grid_kw={"n": 5}, _earlier=[{"grid_kw": {"n": 3}}])
    chk.add(rigid_section_velocity, grid_kind="sphere", body_kind="sphere", dim=3, n_elems=1, taper="uniform", grid_kw={"n": 6}, _earlier=[{"grid_kw": {"n": 4}}, {"grid_kind": "plane", "body_kind": "plane", "grid_kw": {"n": 3}}])
    for gk, bk, dim, kw in (("cylinder2d", "cylinder", 2, {"n": 5}), ("cylinder3d", "cylinder", 3, {"n": 2}), ("sphere", "sphere", 3, {"n": 6}), ("plane", "plane", 3, {"n": 3})):
        chk.add(rigid_section_velocity, grid_kind=gk, body_kind=bk, dim=dim, n_elems=1, taper="uniform", grid_kw=kw)
        chk.add(body_fixed_markers_follow_the_pose, grid_kind=gk, body_kind=bk, dim=dim, grid_kw=kw)
    chk.bounds = [f"rods: n_elems in {ne_list}, tapers {tapers}, surface density 4, caps on/off; rigid bodies with the smallest marker counts",
                  "poses, velocities, angular velocities, radii, masses symbolic; directors: nine free entries (velocity identities hold for every matrix) or unit quaternions (radius claim)"]
    chk.outside = ["second-order term of the exact rotation in the pose advance (the advance is first order in tau by construction)", "rounding", "more elements"]
    chk.assumptions = ["edge grid radius claim: unit in-plane tangents (maintained by PyElastica)", "2-D grids: planar rod data"]
    chk.run()
    chk.finish()


if __name__ == "__main__":
    main()
