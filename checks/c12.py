#!/usr/bin/env python
"""C12 - discrete vector-calculus identities hold exactly (composition of the real kernels on
symbolic grids; every cell value and prefactor is a solver variable)."""
import os
import sys

sys.path.insert(0, os.path.dirname(os.path.dirname(os.path.abspath(__file__))))
import numpy as np  # noqa: E402

from checks.common import Check, scenario, sopht_modules  # noqa: E402


def _inner(shape, g):
    """cells whose distance to every face is >= g"""
    return [idx for idx in np.ndindex(*shape) if all(g <= i < n - g for i, n in zip(idx, shape))]


@scenario
def div_curl_zero(ctx, shape, reset):
    _, spne, _, _ = sopht_modules()
    shape = tuple(shape)
    curl = spne.gen_curl_pyst_kernel_3d(real_t=ctx.real_t, num_threads=False, reset_ghost_zone=reset)
    div = spne.gen_divergence_pyst_kernel_3d(real_t=ctx.real_t, num_threads=False, reset_ghost_zone=reset)
    F = ctx.array("F", (3, *shape))
    C = ctx.array("C0", (3, *shape))
    D = ctx.array("D0", shape)
    a, b = ctx.scalar("curl_prefactor"), ctx.scalar("inv_dx")
    curl(curl=C, field=F, prefactor=ctx.cast(a))
    div(divergence=D, field=C, inv_dx=ctx.cast(b))
    for idx in _inner(shape, 2):
        ctx.eq(f"div_curl[{','.join(map(str, idx))}]", D[idx], 0.0)


@scenario
def curl_updates_create_no_divergence(ctx, shape, kind):
    _, spne, _, _ = sopht_modules()
    shape = tuple(shape)
    upd = spne.gen_update_vorticity_from_velocity_forcing_pyst_kernel_3d(real_t=ctx.real_t, num_threads=False)
    div = spne.gen_divergence_pyst_kernel_3d(real_t=ctx.real_t, num_threads=False, reset_ghost_zone=False)
    w = ctx.array("w", (3, *shape))
    w0 = w.copy()
    p, b = ctx.scalar("prefactor"), ctx.scalar("inv_dx")
    if kind == "forcing":
        f = ctx.array("f", (3, *shape))
    else:
        cross = spne.gen_elementwise_cross_product_pyst_kernel_3d(real_t=ctx.real_t, num_threads=False)
        u = ctx.array("u", (3, *shape))
        f = ctx.array("buf", (3, *shape))
        cross(result_field=f, field_1=u, field_2=w)
    upd(vorticity_field=w, velocity_forcing_field=f, prefactor=ctx.cast(p))
    d1, d0 = ctx.array("d1", shape), ctx.array("d0", shape)
    div(divergence=d1, field=w, inv_dx=ctx.cast(b))
    div(divergence=d0, field=w0, inv_dx=ctx.cast(b))
    for idx in _inner(shape, 2):
        ctx.eq(f"div_unchanged[{','.join(map(str, idx))}]", d1[idx], d0[idx])


@scenario
def stream_function_velocity_2d(ctx, shape):
    _, spne, _, _ = sopht_modules()
    shape = tuple(shape)
    oc = spne.gen_outplane_field_curl_pyst_kernel_2d(real_t=ctx.real_t, num_threads=False, reset_ghost_zone=False)
    ic = spne.gen_inplane_field_curl_pyst_kernel_2d(real_t=ctx.real_t, num_threads=False)
    psi = ctx.array("psi", shape)
    u = ctx.array("u0", (2, *shape))
    w = ctx.array("w0", shape)
    a, b = ctx.scalar("a"), ctx.scalar("b")
    oc(curl=u, field=psi, prefactor=ctx.cast(b))
    ic(curl=w, field=u, prefactor=ctx.cast(a))
    for (j, i) in _inner(shape, 2):
        # divergence written independently as the same centred difference (x = last axis)
        dv = (u[0][j, i + 1] - u[0][j, i - 1]) + (u[1][j + 1, i] - u[1][j - 1, i])
        ctx.eq(f"div_u[{j},{i}]", dv, 0.0)
        wide = psi[j, i + 2] + psi[j, i - 2] + psi[j + 2, i] + psi[j - 2, i] - 4 * psi[j, i]
        ctx.eq(f"curl_curl_is_wide_laplacian[{j},{i}]", w[j, i], -(a * b) * wide)


@scenario
def forcing_update_is_library_curl(ctx, dim, shape, layout="c"):
    from checks.c11 import _laid_out
    _, spne, _, _ = sopht_modules()
    shape = tuple(shape)
    p = ctx.scalar("prefactor")
    if dim == 2:
        upd = spne.gen_update_vorticity_from_velocity_forcing_pyst_kernel_2d(real_t=ctx.real_t, num_threads=False)
        pen = spne.gen_update_vorticity_from_penalised_velocity_pyst_kernel_2d(real_t=ctx.real_t, num_threads=False)
        curl = spne.gen_inplane_field_curl_pyst_kernel_2d(real_t=ctx.real_t, num_threads=False)
        w, f = _laid_out(ctx, "w", shape, layout), ctx.array("f", (2, *shape))
        w0 = w.copy()
        c = ctx.array("c0", shape)
        ws, vs = shape, (2, *shape)
    else:
        upd = spne.gen_update_vorticity_from_velocity_forcing_pyst_kernel_3d(real_t=ctx.real_t, num_threads=False)
        pen = spne.gen_update_vorticity_from_penalised_velocity_pyst_kernel_3d(real_t=ctx.real_t, num_threads=False)
        curl = spne.gen_curl_pyst_kernel_3d(real_t=ctx.real_t, num_threads=False, reset_ghost_zone=False)
        w, f = _laid_out(ctx, "w", (3, *shape), layout), ctx.array("f", (3, *shape))
        w0 = w.copy()
        c = ctx.array("c0", (3, *shape))
        ws, vs = (3, *shape), (3, *shape)
    upd(vorticity_field=w, velocity_forcing_field=f, prefactor=ctx.cast(p))
    curl(curl=c, field=f, prefactor=ctx.cast(1.0) if not ctx.sym else 1.0)
    inner = [idx for idx in np.ndindex(*ws) if all(1 <= i < n - 1 for i, n in zip(idx[-dim:], shape))]
    ctx.eq_array("update_equals_w+p*curl", w, w0 + p * c, cells=inner)
    ring = [idx for idx in np.ndindex(*ws) if idx not in set(inner)]
    ctx.eq_array("ring_untouched", w, w0, cells=ring)
    # penalised variant == forcing update with f = u_pen - u
    up, u = ctx.array("up", vs), ctx.array("u", vs)
    wa = _laid_out(ctx, "wa", ws, layout)  # the updated field may live in any ndarray (view of a padded / transposed / strided buffer)
    wb = wa.copy()
    pen(vorticity_field=wa, penalised_velocity_field=up, velocity_field=u, prefactor=ctx.cast(p))
    upd(vorticity_field=wb, velocity_forcing_field=up - u, prefactor=ctx.cast(p))
    ctx.eq_array("penalised_equals_forcing_of_difference", wa, wb)


@scenario
def forcing_update_called_again_with_another_field(ctx, dim, shape):
    """call history on ONE generated kernel object: the forcing passed in the second call is a different buffer, handed
    over (as the simulators do) through a temporary wrapper object - which may reuse the identity of the first call's dead
    wrapper.  The second update must use the second forcing."""
    from checks.common import view_with_identity_of

    _, spne, _, _ = sopht_modules()
    shape = tuple(shape)
    p = ctx.scalar("prefactor")
    gen_u = getattr(spne, f"gen_update_vorticity_from_velocity_forcing_pyst_kernel_{dim}d")
    gen_p = getattr(spne, f"gen_update_vorticity_from_penalised_velocity_pyst_kernel_{dim}d")
    ws, vs = (shape, (2, *shape)) if dim == 2 else ((3, *shape), (3, *shape))
    fa, fb = ctx.array("fa", vs), ctx.array("fb", vs)
    reused = []
    for name, gen in (("forcing", gen_u), ("penalised", gen_p)):
        k = gen(real_t=ctx.real_t, num_threads=False)
        fresh_k = gen(real_t=ctx.real_t, num_threads=False)
        w = ctx.array("w", ws)
        u = ctx.array("u", vs)
        w_ref = w.copy()

        def call(kern, wf, forcing):
            if name == "forcing":
                kern(vorticity_field=wf, velocity_forcing_field=forcing, prefactor=ctx.cast(p))
            else:
                kern(vorticity_field=wf, penalised_velocity_field=forcing, velocity_field=u, prefactor=ctx.cast(p))

        v = fa.view()
        dead = id(v)
        call(k, w, v)
        del v
        v2, ok = view_with_identity_of(dead, fb)
        reused.append(ok)
        call(k, w, v2)
        del v2
        # reference: a kernel object without history, the two forcings passed as the long-lived arrays themselves
        call(fresh_k, w_ref, fa)
        call(fresh_k, w_ref, fb)
        ctx.eq_array(f"{name}:second_call_uses_the_forcing_passed_in_the_second_call", w, w_ref)
    ctx.note(f"identity of the dead first wrapper reused by the second: {reused}")


@scenario
def divergence_monitor(ctx, shape):
    """get_vorticity_divergence_l2_norm() = dx^(3/2) * || div_h(vorticity) ||_2"""
    _, spne, sps, _ = sopht_modules()
    shape = tuple(shape)
    sim = sps.UnboundedNavierStokesFlowSimulator3D(grid_size=shape, x_range=1.0, kinematic_viscosity=0.1, real_t=ctx.real_t, num_threads=1,
                                                   poisson_solver_type="fast_diagonalisation")
    w = ctx.array("w", (3, *shape))
    buf = ctx.array("buf", (3, *shape))
    if ctx.sym:
        sim.vorticity_field = w
        sim.buffer_vector_field = buf
        sim.buffer_scalar_field = buf[0]
    else:
        sim.vorticity_field[...] = w
        sim.buffer_vector_field[...] = buf
    val = sim.get_vorticity_divergence_l2_norm()
    h = float(sim.dx)
    acc = 0.0
    for (k, j, i) in _inner(shape, 1):
        d = (w[0][k, j, i + 1] - w[0][k, j, i - 1] + w[1][k, j + 1, i] - w[1][k, j - 1, i] + w[2][k + 1, j, i] - w[2][k - 1, j, i]) * (0.5 * (1.0 / sim.dx))
        acc = acc + d * d
    # dx^(3/2) is a floating-point constant of the simulator (not exactly representable): the reference uses the same double
    K = float(sim.dx ** 1.5)
    if ctx.sym:
        from symsopht import sym as S

        val = S.lift(val)
        ctx.claim("norm_nonnegative", val >= 0)
        ctx.eq("norm_squared", val * val, acc * K * K)
    else:
        ctx.le("norm_nonnegative", 0.0, val)
        ctx.eq("norm_squared", val * val, acc * K * K)


def main():
    chk = Check("C12", "discrete vector-calculus identities by composing the real kernels on symbolic grids (z3)",
                functions=["gen_curl_pyst_kernel_3d", "gen_divergence_pyst_kernel_3d", "gen_update_vorticity_from_velocity_forcing_pyst_kernel_2d/3d",
                           "gen_update_vorticity_from_penalised_velocity_pyst_kernel_2d/3d", "gen_elementwise_cross_product_pyst_kernel_3d",
                           "gen_outplane_field_curl_pyst_kernel_2d", "gen_inplane_field_curl_pyst_kernel_2d", "UnboundedNavierStokesFlowSimulator3D.get_vorticity_divergence_l2_norm"],
                files=["sopht/numeric/eulerian_grid_ops/stencil_ops_3d/curl_3d.py", "sopht/numeric/eulerian_grid_ops/stencil_ops_3d/divergence_3d.py",
                       "sopht/numeric/eulerian_grid_ops/stencil_ops_3d/update_vorticity_from_velocity_forcing_3d.py",
                       "sopht/numeric/eulerian_grid_ops/stencil_ops_2d/outplane_field_curl_2d.py", "sopht/numeric/eulerian_grid_ops/stencil_ops_2d/inplane_field_curl_2d.py",
                       "sopht/numeric/eulerian_grid_ops/stencil_ops_2d/update_vorticity_from_velocity_forcing_2d.py", "sopht/simulator/flow/navier_stokes_flow_simulators.py"])
    chk.maybe_replay()
    sopht_modules()
    s3 = [(5, 5, 5), (5, 6, 7), (7, 5, 6), (6, 6, 6)] if chk.quick else [(5, 5, 5), (5, 6, 7), (7, 5, 6), (6, 6, 6), (6, 7, 5), (8, 5, 5), (5, 5, 8)]
    s2 = [(5, 6), (7, 5), (6, 6)] if chk.quick else [(5, 6), (7, 5), (6, 6), (5, 5), (9, 5), (5, 9)]
    precisions = ["float64", "float32"]
    for rt in precisions:
        for sh in s3:
            for reset in (True, False):
                chk.add(div_curl_zero, real_t=rt, shape=sh, reset=reset)
            for kind in ("forcing", "rotational"):
                chk.add(curl_updates_create_no_divergence, real_t=rt, shape=sh, kind=kind)
            chk.add(forcing_update_is_library_curl, real_t=rt, dim=3, shape=sh)
        for sh in s2:
            chk.add(stream_function_velocity_2d, real_t=rt, shape=sh)
            chk.add(forcing_update_is_library_curl, real_t=rt, dim=2, shape=sh)
        chk.add(divergence_monitor, real_t=rt, shape=(4, 3, 5))
        if rt == "float64":
            # long thin grids: each axis in turn beyond any plausible slab / blocking threshold (70 = 64+6 > 2*32+2)
            for sh in ((70, 4, 3), (3, 70, 4), (4, 3, 70)):
                chk.add(div_curl_zero, real_t=rt, shape=sh, reset=False)
                chk.add(forcing_update_is_library_curl, real_t=rt, dim=3, shape=sh)
            for sh in ((70, 4), (4, 70)):
                chk.add(stream_function_velocity_2d, real_t=rt, shape=sh)
                chk.add(forcing_update_is_library_curl, real_t=rt, dim=2, shape=sh)
        if rt == "float64":
            # memory layout of the updated vorticity field: interior of a padded allocation, transposed storage, every second cell
            for lay in ("interior", "fortran", "strided"):
                chk.add(forcing_update_is_library_curl, real_t=rt, dim=2, shape=(4, 5), layout=lay)
                chk.add(forcing_update_is_library_curl, real_t=rt, dim=3, shape=(4, 3, 5), layout=lay)
        chk.add(forcing_update_called_again_with_another_field, real_t=rt, dim=2, shape=s2[0])
        chk.add(forcing_update_called_again_with_another_field, real_t=rt, dim=3, shape=s3[0])
    chk.bounds = [f"3D grids {s3}, 2D grids {s2}, divergence monitor on (4,3,5)", "long thin grids (70,4,3),(3,70,4),(4,3,70) / (70,4),(4,70)", f"precisions {precisions}", "all cell values and prefactors symbolic", "layouts of the updated vorticity field in the forcing / penalised updates: C order, interior of a padded allocation, transposed storage, every second cell of a wider buffer", "call history: two calls of one kernel object with different forcing buffers passed through temporary wrappers (identity reuse forced where CPython allows)"]
    chk.outside = ["larger grids (the identities are per-cell stencil compositions: every interior stencil-of-stencils pattern occurs on these grids)", "rounding"]
    chk.assumptions = ["exact real arithmetic", "sqrt in the divergence monitor: s >= 0 and s^2 = radicand"]
    chk.run()
    chk.finish()


if __name__ == "__main__":
    main()
