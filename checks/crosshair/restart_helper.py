"""CrossHair harness for sopht.utils.restart_sim.restart_simulation (C18, restart helper clause).

The directory listing, the three IO.load calls and ea.load_state are stubbed by their contracts; the
REAL restart_simulation runs under CrossHair's symbolic execution with symbolic checkpoint indices
and symbolic flow / body times."""
import os
import sys
from pathlib import PurePosixPath
from typing import List, Tuple

os.environ.setdefault("NUMBA_DISABLE_JIT", "1")
sys.path.insert(0, os.environ.get("VERIF_REPO", "/repo"))
import sopht.utils.restart_sim as rs  # noqa: E402

LO = int(os.environ.get("C18_INDEX_LO", "0"))
HI = int(os.environ.get("C18_INDEX_HI", "12"))
MAXFILES = int(os.environ.get("C18_MAX_FILES", "2"))


class _IO:
    def __init__(self, log, time):
        self.log = log
        self.time = time

    def load(self, h5_file_name):
        self.log.append(h5_file_name)
        return self.time


class _Cwd:
    def __init__(self, names):
        self.names = names

    def glob(self, pattern):
        assert pattern == "sopht_*.h5"
        return [PurePosixPath(n) for n in self.names]


class _PathStub:
    names: list = []

    @classmethod
    def cwd(cls):
        return _Cwd(cls.names)


def run_restart(indices: List[int], t_flow: int, t_rod: int) -> Tuple[str, List[str], int]:
    """
    pre: len(indices) <= MAXFILES
    pre: all(LO <= i < HI for i in indices)
    post: (_[0] == "nofile") == (len(indices) == 0)
    post: (_[0] == "mismatch") == (len(indices) > 0 and t_flow != t_rod)
    post: _[0] != "ok" or _[2] == t_flow
    post: len(indices) == 0 or _[1] == ["sopht_%04d.h5" % max(indices), "rod_%04d.h5" % max(indices), "forcing_grid_%04d.h5" % max(indices)]
    """
    log: List[str] = []
    _PathStub.names = ["sopht_%04d.h5" % i for i in indices]
    rs.Path = _PathStub
    rs.ea = type("ea", (), {"load_state": staticmethod(lambda sim, d, verbose: t_rod), "BaseSystemCollection": object})
    io, rod_io, forcing_io = _IO(log, t_flow), _IO(log, -1), _IO(log, -2)
    try:
        t = rs.restart_simulation(restart_simulator=None, io=io, rod_io=rod_io, forcing_io=forcing_io, restart_dir="d")
        return ("ok", log, t)
    except FileNotFoundError:
        return ("nofile", log, 0)
    except ValueError:
        return ("mismatch", log, 0)


def reachability_twin(indices: List[int], t_flow: int, t_rod: int) -> int:
    """
    pre: len(indices) <= MAXFILES
    pre: all(LO <= i < HI for i in indices)
    post: _ != 1
    """
    # vacuity guard: CrossHair must find inputs for which the helper returns normally (post refuted)
    return 1 if run_restart(indices, t_flow, t_rod)[0] == "ok" else 0
