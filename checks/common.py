"""Check driver shared by all property harnesses.

A *scenario* is a Python function `fn(ctx, **params)` that drives the real SophT code and states
claims through `ctx`.  It is polymorphic:

* mode "sym": inputs are solver variables (`ctx.array`, `ctx.scalar`), the real code runs on
  symbolic arrays, every claim is an SMT query (`unsat` of hyps & not claim = holds for all values);
* mode "num": the same function is re-run on the *real build* (numba JIT on, compiled pystencils
  kernels, real FFTW/HDF5) with the numeric values of a solver model; the named claim is evaluated
  in floating point.  This is the replay that decides whether a `sat` answer is reported.

Exit codes: 0 all obligations discharged; 1 violation (reproduced by replay, not a known finding);
2 inconclusive / harness error.
"""
from __future__ import annotations

import argparse
import hashlib
import json
import os
import random
import subprocess
import sys
import time
import traceback
from fractions import Fraction

import numpy as np

VERIF = os.path.dirname(os.path.dirname(os.path.abspath(__file__)))
if VERIF not in sys.path:
    sys.path.insert(0, VERIF)

from symsopht import smt  # noqa: E402
from symsopht import sym as S  # noqa: E402
from symsopht.symarray import SymArray, fresh, sym_view  # noqa: E402

SCENARIOS: dict = {}
MAX_FAIL_PER_SCENARIO = 4


def scenario(fn):
    SCENARIOS[fn.__name__] = fn
    return fn


class ReplayInvalid(Exception):
    pass


class Claim:
    __slots__ = ("name", "status", "model", "detail", "time", "trivial", "compound", "alt_model")

    def __init__(self, name, status, model=None, detail="", time_=0.0, trivial=False, compound=True):
        self.name, self.status, self.model, self.detail, self.time, self.trivial = name, status, model, detail, time_, trivial
        self.compound = compound  # the implementation-side term is a computed expression (not a bare input/constant)
        self.alt_model = None


def _model_to_json(model):
    out = {}
    for k, v in model.items():
        if isinstance(k, S.Sym):
            out[k.args[0]] = [str(v.numerator), str(v.denominator)] if isinstance(v, Fraction) else bool(v)
    return out


class Ctx:
    def __init__(self, mode, model=None, target=None, real_t=np.float64, timeout_ms=20000, seed=0):
        self.mode = mode
        self.sym = mode == "sym"
        self.model = model or {}
        self.target = target
        self.real_t = real_t
        self.hyps: list = []
        self.claims: list = []
        self.timeout_ms = timeout_ms
        self.rng = random.Random(seed)
        self.nfail = 0
        self.replay_result = None  # num mode: (violated: bool, detail)
        self.notes: list = []
        self.var_count = 0
        self.tol = 1e3 * float(np.finfo(real_t).eps)
        self.worst_case: dict = {}
        self.prefer = "smt"  # which z3 engine to try first ("nlsat" for genuinely polynomial identities)
        self.discard = False  # True while an *earlier* object / call history is being produced (claims are not stated)
        self.t_start = time.time()
        self.instance_budget = float(os.environ.get("VERIF_INSTANCE_BUDGET", "0")) or (420.0 if os.environ.get("VERIF_TIER", "quick") == "quick" else 5400.0)

    # ---- inputs ---------------------------------------------------------------------
    def _num(self, name, default):
        v = self.model.get(name)
        if v is None:
            return default
        if isinstance(v, list):
            return int(v[0]) / int(v[1])
        return float(v)

    def scalar(self, name, positive=False, nonneg=False, lo=None, hi=None, default=None):
        if self.sym:
            v = S.var(name)
            self.var_count += 1
            if positive:
                self.hyps.append(v > 0)
            if nonneg:
                self.hyps.append(v >= 0)
            if lo is not None:
                self.hyps.append(v >= lo)
            if hi is not None:
                self.hyps.append(v <= hi)
            return v
        if default is None:
            default = 1.0 if positive else (lo if lo is not None else 0.0)
        return float(self._num(name, default))

    def array(self, name, shape, default=0.0):
        if self.sym:
            a = fresh(shape, name)
            self.var_count += a.size
            return a
        out = np.empty(shape, dtype=self.real_t)
        for idx in np.ndindex(*out.shape):
            out[idx] = self._num(name + "[" + ",".join(map(str, idx)) + "]", default)
        return out

    def zeros(self, shape):
        if self.sym:
            a = SymArray(shape)
            a[...] = S.ZERO
            return a
        return np.zeros(shape, dtype=self.real_t)

    def const_array(self, arr):
        """a numeric array used as data (exact value in sym mode)"""
        if self.sym:
            from symsopht.symarray import constant

            return constant(arr)
        return np.array(arr, dtype=self.real_t)

    def cast(self, x):
        """stand-in for real_t(x): identity on symbolic values"""
        if self.sym:
            return x
        return self.real_t(x)

    # ---- assumptions ----------------------------------------------------------------
    def assume(self, cond):
        if self.sym:
            self.hyps.append(S.lift(cond))
        else:
            if not bool(cond) and not self.discard:
                raise ReplayInvalid("model violates an assumption numerically")

    # ---- claims ---------------------------------------------------------------------
    def _record(self, c):
        self.claims.append(c)
        if c.status in ("sat", "unknown"):
            self.nfail += 1

    def _relevant_hyps(self, cond, transitive=True):
        """cone of influence: assumptions sharing (transitively) a variable with the claim; dropping the
        others only weakens the premise, so `unsat` stays sound"""
        cache = self.__dict__.setdefault("_hyp_fv", {})
        fvs = []
        for h in self.hyps:
            fv = cache.get(h.hid)
            if fv is None:
                fv = cache[h.hid] = frozenset(v.hid for v in S.free_vars([h]))
            fvs.append(fv)
        need = set(v.hid for v in S.free_vars([cond]))
        chosen = [False] * len(self.hyps)
        changed = True
        while changed:
            changed = False
            for i, fv in enumerate(fvs):
                if not chosen[i] and (not fv or fv & need):
                    chosen[i] = True
                    if transitive and not fv <= need:
                        need |= fv
                        changed = True
        return [h for h, c in zip(self.hyps, chosen) if c]

    def too_many_failures(self):
        return self.nfail >= MAX_FAIL_PER_SCENARIO

    def claim(self, name, cond, robust=None):
        """cond must hold under the assumptions.  robust: optional stronger negation used to get a
        numerically robust counterexample (Sym bool), tried first when the claim is refuted."""
        if self.discard:
            return
        if self.sym and time.time() - self.t_start > self.instance_budget:
            raise InstanceBudget(f"instance budget of {self.instance_budget:.0f} s exhausted after {len(self.claims)} obligations")
        if not self.sym:
            if self.target is not None and name != self.target:
                return
            ok = bool(cond)
            if not ok:
                self.replay_result = (True, f"claim {name} false numerically")
            elif self.replay_result is None:
                self.replay_result = (False, f"claim {name} holds numerically")
            return
        if self.too_many_failures():
            return
        cond = S.lift(cond)
        if cond is S.TRUE:
            self._record(Claim(name, "unsat", trivial=True))
            return
        hyps = self._relevant_hyps(cond, transitive=False)
        r = smt.prove(hyps, cond, timeout_ms=self.timeout_ms, tag=name.split("[")[0], prefer=self.prefer)
        if r.status != "unsat":
            hyps2 = self._relevant_hyps(cond)
            if len(hyps2) > len(hyps):
                hyps = hyps2
                r = smt.prove(hyps, cond, timeout_ms=self.timeout_ms, tag=name.split("[")[0] + ":cone", prefer=self.prefer)
        if r.status == "sat" and len(hyps) < len(self.hyps):
            # a model found under a subset of the assumptions must be confirmed under all of them
            r = smt.prove(self.hyps, cond, timeout_ms=self.timeout_ms, tag=name.split("[")[0] + ":all-hyps", prefer=self.prefer)
        model = r.model
        if r.status == "sat" and robust is not None:
            for rb in (robust if isinstance(robust, list) else [robust]):
                r2 = smt.check_sat(self.hyps + [rb], timeout_ms=min(self.timeout_ms, 10000), tag=name.split("[")[0] + ":robust")
                if r2.status == "sat":
                    model = r2.model
                    break
        if r.status in ("sat", "unknown") and smt.has_apps(self.hyps + [cond]):
            # transcendental applications are abstracted in the query: get a point that is a counterexample under the
            # true functions (float evaluation), have the solver confirm the concretised query, replay decides
            goals = (robust if isinstance(robust, list) else [robust]) if robust is not None else [S.Not(cond)]
            w = smt.numeric_witness(self.hyps, goals, model, self.rng)
            if w is not None:
                fix = [S._cmp("eq", v, S.const(x)) for v, x in w.items() if isinstance(x, Fraction)]
                r4 = smt.check_sat(self.hyps + fix + [S.Not(cond)], timeout_ms=5000, tag=name.split("[")[0] + ":witness-confirm")
                if r4.status == "sat":
                    model = dict(w)
                    if r.status == "unknown":
                        r = r4
        if r.status == "unknown":
            r3 = smt.find_model_by_concretisation(self.hyps, S.Not(cond), self.rng, tag=name.split("[")[0])
            if r3.status == "sat":
                r, model = r3, r3.model
        alt = None
        if r.status == "sat" and not getattr(self, "_alt_budget_spent", 0) > 6:
            # a second, GENERIC counterexample (every variable of the claim non-zero, magnitudes >= 1/8): sparse models can
            # sit on a measure-zero set where the real build happens to agree (e.g. compiler vectorisation of an aliased loop)
            fv = [v for v in S.free_vars([cond]) if v.sort == S.REAL and v.args[0] != S.PI_NAME]
            if 0 < len(fv) <= 400:
                self._alt_budget_spent = getattr(self, "_alt_budget_spent", 0) + 1
                gen = [S.And(S.sabs(v) >= Fraction(1, 8), S.sabs(v) <= 40) for v in fv]
                goals = (robust if isinstance(robust, list) else [robust]) if robust is not None else [S.Not(cond)]
                for g in goals[:2]:
                    r5 = smt.check_sat(self.hyps + gen + [g, S.Not(cond)], timeout_ms=5000, tag=name.split("[")[0] + ":generic-model")
                    if r5.status == "sat":
                        alt = _model_to_json(r5.model)
                        break
        c = Claim(name, r.status, _model_to_json(model) if model else None, time_=r.time)
        c.alt_model = alt
        self._record(c)

    def eq(self, name, impl, ref):
        if self.discard:
            return
        if not self.sym:
            if self.target is not None and name != self.target:
                return
            a, b = float(impl), float(ref)
            scale = max(1.0, abs(a), abs(b))
            bad = not (abs(a - b) <= self.tol * scale)
            if bad:
                self.replay_result = (True, f"{name}: impl={a!r} ref={b!r}")
            elif self.replay_result is None:
                self.replay_result = (False, f"{name}: impl={a!r} ref={b!r} agree")
            return
        impl, ref = S.lift(impl), S.lift(ref)
        if impl is ref:
            # identical canonical form: for the linear fragment the normaliser is a complete decision procedure
            self._record(Claim(name, "unsat", trivial=True, compound=impl.op not in ("c", "v")))
            return
        d = impl - ref
        box = [S.And(v >= -50, v <= 50) for v in S.free_vars([d]) if v.sort == S.REAL and v.args[0] != S.PI_NAME]
        robust = [S.And(S.sabs(d) >= m, *box) for m in ((Fraction(1, 100), Fraction(1, 1000)) + ((Fraction(1, 10**6),) if self.real_t == np.float64 else ()))]
        self.claim(name, S._cmp("eq", impl, ref), robust=robust)

    def eq_array(self, name, impl, ref, cells=None):
        if self.discard:
            return
        impl_a = np.asarray(impl)
        ref_a = np.broadcast_to(np.asarray(ref), impl_a.shape)
        if not self.sym:
            if self.target is not None and not self.target.startswith(name + "["):
                return
        for idx in (cells if cells is not None else np.ndindex(*impl_a.shape)):
            if self.sym and self.too_many_failures():
                return
            self.eq(f"{name}[{','.join(map(str, idx))}]", impl_a[idx], ref_a[idx])

    def le(self, name, a, b):
        """claim a <= b (replay: violated when a exceeds b by more than the relative rounding tolerance)"""
        if self.discard:
            return
        if not self.sym:
            if self.target is not None and name != self.target:
                return
            a, b = float(a), float(b)
            scale = max(abs(a), abs(b))
            bad = not (a <= b + self.tol * scale)
            if bad:
                self.replay_result = (True, f"{name}: {a!r} > {b!r}")
            elif self.replay_result is None:
                self.replay_result = (False, f"{name}: {a!r} <= {b!r}")
            return
        a, b = S.lift(a), S.lift(b)
        d = a - b
        fv = [v for v in S.free_vars([d]) if v.sort == S.REAL and v.args[0] != S.PI_NAME]
        robust = [S.And(d >= S.sabs(b) * Fraction(1, k), d > 0, *[S.And(v >= -1000, v <= 1000) for v in fv]) for k in (100, 10**6, 10**9)]
        self.claim(name, a <= b, robust=robust)

    def same(self, name, after, before):
        """frame condition: the cell still holds the very value it held before"""
        self.eq(name, after, before)

    def same_array(self, name, after, before):
        self.eq_array(name, after, before)

    def note(self, s):
        if not self.discard:
            self.notes.append(s)

    # ---- branch pruning under the current assumptions (DESIGN 4.4) -------------------
    def enable_pruning(self):
        """comparisons / abs / floor created from now on are simplified when the current assumptions
        decide them (each decision is an SMT query, tagged 'prune')."""
        if not self.sym:
            return
        cache = {}

        def prune(cond):
            key = (cond.hid, len(self.hyps))
            if key in cache:
                return cache[key]
            res = None
            r = smt.check_sat(self.hyps + [S.Not(cond)], timeout_ms=3000, tag="prune", want_model=False)
            if r.status == "unsat":
                res = True
            else:
                r = smt.check_sat(self.hyps + [cond], timeout_ms=3000, tag="prune", want_model=False)
                if r.status == "unsat":
                    res = False
            cache[key] = res
            return res

        def floor_value(term):
            r = smt.check_sat(self.hyps, timeout_ms=5000, tag="prune:floor-model")
            if r.status != "sat":
                return None
            env = {v: r.model.get(v, Fraction(0)) for v in S.free_vars([term])}
            try:
                val = S.evaluate_exact([term], env)[term.hid]
            except (S.SymError, ZeroDivisionError):
                return None
            n = val.numerator // val.denominator
            lo, hi = S.const(n), S.const(n + 1)
            pr = smt.prove(self.hyps, S.And(S.Sym("le", (lo, term), S.BOOL), S.Sym("lt", (term, hi), S.BOOL)), timeout_ms=5000, tag="prune:floor")
            return n if pr.status == "unsat" else None

        S.HOOKS.prune = prune
        S.HOOKS.floor_value = floor_value

    def disable_pruning(self):
        S.HOOKS.prune = None
        S.HOOKS.floor_value = None


# =========================================================================================
class Check:
    def __init__(self, pid, title, functions=(), files=(), argv=None):
        ap = argparse.ArgumentParser()
        ap.add_argument("--tier", default=os.environ.get("VERIF_TIER", "quick"), choices=["quick", "thorough"])
        ap.add_argument("--replay", default=None)
        ap.add_argument("--jobs", type=int, default=int(os.environ.get("VERIF_JOBS", "0")) or min(16, os.cpu_count() or 1))
        ap.add_argument("--only", default=None, help="substring filter on scenario names (debug)")
        self.args = ap.parse_args(argv)
        self.pid = pid
        self.title = title
        self.tier = self.args.tier
        os.environ["VERIF_TIER"] = self.tier  # read by the workers (per-instance time budget)
        self.seed = int(os.environ.get("VERIF_SEED", "0"))
        self.functions = list(functions)
        self.files = list(files)
        self.t0 = time.time()
        self.records: list = []
        self.bounds: list = []
        self.assumptions: list = []
        self.outside: list = []
        self.extra: dict = {}
        self.tasks: list = []
        self.errors: list = []

    @property
    def quick(self):
        return self.tier == "quick"

    # ---- replay entry ---------------------------------------------------------------
    def maybe_replay(self):
        if not self.args.replay:
            return
        data = json.load(open(self.args.replay))
        fn = SCENARIOS[data["scenario"]]
        real_t = np.float32 if data.get("real_t") == "float32" else np.float64
        ctx = Ctx("num", model=data["model"], target=data["claim"], real_t=real_t)
        try:
            call_with_history(fn, ctx, data["params"])
        except ReplayInvalid as e:
            print(f"REPLAY reproduced=False reason=invalid-model {e}")
            sys.exit(3)
        except Exception as e:  # the real code raising on this input is itself a reproduction if the claim says 'returns normally'
            if data["claim"].startswith("returns_normally"):
                print(f"REPLAY reproduced=True detail=real code raised {type(e).__name__}: {e}")
                sys.exit(1)
            # the symbolic run returned a value for this input (that is why there is a claim about it); the real build
            # raising an arithmetic error from inside SophT on the same input does not satisfy a claim about the result
            tb = e.__traceback__
            last = None
            while tb is not None:
                last = tb.tb_frame.f_code.co_filename
                tb = tb.tb_next
            repo_root = os.path.realpath(os.environ.get("VERIF_REPO", "/repo"))
            if isinstance(e, ArithmeticError) and last and os.path.realpath(last).startswith(os.path.join(repo_root, "sopht")):
                print(f"REPLAY reproduced=True detail=real code raised {type(e).__name__}: {e} (in {os.path.relpath(last, repo_root)}) where the claim needs a returned value")
                sys.exit(1)
            traceback.print_exc()
            print(f"REPLAY reproduced=False reason=exception {type(e).__name__}: {e}")
            sys.exit(3)
        if ctx.replay_result is None:
            print("REPLAY reproduced=False reason=claim-not-reached")
            sys.exit(3)
        viol, detail = ctx.replay_result
        print(f"REPLAY reproduced={viol} detail={detail}")
        sys.exit(1 if viol else 0)

    # ---- scheduling -----------------------------------------------------------------
    def add(self, fn, real_t="float64", **params):
        if self.args.only and self.args.only not in fn.__name__ + json.dumps(params):
            return
        self.tasks.append((fn.__name__, params, real_t))

    def run(self):
        """execute all scheduled scenario instances (forked workers)"""
        tasks = self.tasks
        self.tasks = []
        jobs = max(1, min(self.args.jobs, len(tasks)))
        if jobs == 1 or len(tasks) <= 1:
            results = [_run_task(t, self.seed) for t in tasks]
        else:
            import multiprocessing as mp

            ctxmp = mp.get_context("fork")
            # one task per worker process: the hash-consing table of a finished scenario is released with its process
            # wall budget of the whole tier: an instance that is still running at the deadline (a solver call that ignores
            # its time limit, a path explosion on changed code) is reported as inconclusive instead of hanging the check
            budget = float(os.environ.get("VERIF_WALL_BUDGET", "1800" if self.quick else "14400"))
            deadline = time.time() + budget
            with ctxmp.Pool(jobs, maxtasksperchild=1) as pool:
                asyncs = [pool.apply_async(_run_task, (t, self.seed)) for t in tasks]
                results = []
                for t, a in zip(tasks, asyncs):
                    try:
                        results.append(a.get(timeout=max(1.0, deadline - time.time())))
                    except mp.TimeoutError:
                        results.append({"scenario": t[0], "params": t[1], "real_t": t[2], "failures": [], "n_claims": 0, "n_trivial": 0, "sample": None, "claim_keys": [],
                                        "error": f"instance not finished within the wall budget of the tier ({budget:.0f} s)", "stats": smt.Stats().as_dict(), "wall_s": budget,
                                        "notes": [], "worst_case": {}, "n_by_normal_form": 0})
                pool.terminate()
        self.records.extend(results)
        return results

    # ---- finish ---------------------------------------------------------------------
    def finish(self):
        known = _load_known(self.pid)
        violations, known_hits, inconclusive = [], [], []
        groups: dict = {}
        n_claims = n_triv = 0
        stats_total = {"queries": 0, "unsat": 0, "sat": 0, "unknown": 0, "solver_time_s": 0.0, "by_tag": {}, "max_free_vars_in_a_query": 0}
        samples = []
        distinct = set()
        for rec in self.records:
            st = rec["stats"]
            for k in ("queries", "unsat", "sat", "unknown"):
                stats_total[k] += st[k]
            stats_total["solver_time_s"] = round(stats_total["solver_time_s"] + st["solver_time_s"], 3)
            stats_total["max_free_vars_in_a_query"] = max(stats_total["max_free_vars_in_a_query"], st["max_free_vars_in_a_query"])
            for tag, d in st["by_tag"].items():
                t = stats_total["by_tag"].setdefault(tag, {"queries": 0, "unsat": 0, "sat": 0, "unknown": 0, "time_s": 0.0})
                for k in ("queries", "unsat", "sat", "unknown"):
                    t[k] += d[k]
                t["time_s"] = round(t["time_s"] + d["time_s"], 4)
            if rec.get("error"):
                inconclusive.append(f"{rec['scenario']} {rec['params']}: harness error: {rec['error']}")
                if not rec.get("failures"):
                    continue  # (refutations found before the instance stopped are still replayed and reported)
            n_claims += rec["n_claims"]
            n_triv += rec["n_trivial"]
            for key in rec["claim_keys"]:
                distinct.add((rec["scenario"], json.dumps(rec["params"], sort_keys=True), key))
            if len(samples) < 6 and rec["sample"]:
                samples.append({"scenario": rec["scenario"], "params": rec["params"], "obligation": rec["sample"]})
            for f in rec["failures"]:
                if f["status"] == "unknown":
                    inconclusive.append(f"{rec['scenario']} {rec['params']} claim {f['name']}: solver unknown")
                    continue
                fam = (rec["scenario"], f["name"].split("[")[0], json.dumps({k: v for k, v in rec["params"].items() if k not in ("shape", "view")}, sort_keys=True))
                groups.setdefault(fam, []).append((rec, f))
        # replay one counterexample per claim family (next ones only if it does not reproduce)
        fams = list(groups.items())
        self.extra["counterexample_families"] = len(fams)
        MAX_FAMILIES = 12

        def work(item):
            fam, lst = item
            last = None
            for rec, f in lst[:3]:
                rp = self._write_replay(rec, f)
                ok, out = self._replay(rp)
                last = (rec, f, rp, ok, out)
                if ok is True:
                    break
                if f.get("alt_model"):
                    f2 = dict(f, model=f["alt_model"])
                    rp2 = self._write_replay(rec, f2)
                    ok2, out2 = self._replay(rp2)
                    if ok2 is True:
                        last = (rec, f2, rp2, ok2, out2)
                        break
            return last

        if fams:
            from concurrent.futures import ThreadPoolExecutor

            with ThreadPoolExecutor(max_workers=min(8, len(fams))) as ex:
                results = list(ex.map(work, fams[:MAX_FAMILIES]))
            for (fam, lst), (rec, f, rp, ok, out) in zip(fams[:MAX_FAMILIES], results):
                kf = _match_known(known, rec, f)
                if ok is True:
                    if kf is not None:
                        known_hits.append((kf, rec, f, rp))
                    else:
                        violations.append((rec, f, rp, out, len(lst)))
                else:
                    inconclusive.append(f"{rec['scenario']} {rec['params']} claim {f['name']}: counterexample did not reproduce on the real code ({out.strip()[-200:]}); replay={rp}")
            if len(fams) > MAX_FAMILIES:
                self.extra["counterexample_families_not_replayed"] = len(fams) - MAX_FAMILIES
        wc_all: dict = {}
        for rec in self.records:
            for k, v in (rec.get("worst_case") or {}).items():
                key = f"{k} [{rec['real_t']}]"
                wc_all[key] = max(wc_all.get(key, 0.0), v)
        if wc_all:
            self.extra["tolerance_obligations_measured_worst_case"] = wc_all
        for e in self.errors:
            inconclusive.append(e)
        seen = set()
        for kf, rec, f, rp in known_hits:
            if kf["id"] in seen:
                continue
            seen.add(kf["id"])
            print(f"KNOWN-FINDING: property={self.pid} {kf['id']}: {kf['what']} (witness replay={rp})")
        for rec, f, rp, out, nfam in violations:
            print(f"VIOLATION property={self.pid} replay={rp}")
            print(f"  scenario={rec['scenario']} params={json.dumps(rec['params'])} claim={f['name']} (+{nfam - 1} more refuted obligations of this family)")
            print("  " + out.strip().splitlines()[-1] if out.strip() else "")
        for s in inconclusive:
            print(f"INCONCLUSIVE property={self.pid} {s}")
        wall = time.time() - self.t0
        nontriv = n_claims - n_triv
        slow = sorted(self.records, key=lambda r: -r.get("wall_s", 0))[:5]
        self.extra["slowest_instances"] = [{"scenario": r["scenario"], "params": r["params"], "real_t": r["real_t"], "wall_s": r.get("wall_s"), "solver": {k: v for k, v in r["stats"].items() if k != "by_tag"}} for r in slow]
        ev = {
            "property_id": self.pid,
            "tier": self.tier,
            "seed": self.seed,
            "level": "model_checking",
            "coverage": {
                "evaluations": max(1, stats_total["queries"]),
                "distinct_nontrivial": len(distinct),
                "rule": "one evaluation = one SMT query (z3) over the symbolic execution of the real code; an obligation is one claim (cell/scalar) of one "
                "scenario instance; it is non-trivial when the implementation-side term is a computed expression (not a bare input variable or constant); "
                "distinct = distinct (scenario, parameters, claim name). Non-trivial obligations are decided either by a z3 query or, when both sides reduce to the "
                "same canonical linear combination of atoms, by that canonical form (a complete decision procedure for linear identities); both counts are reported",
                "samples": samples or [{"note": "no obligations"}],
                "obligations": n_claims,
                "discharged": n_claims - sum(len(r.get("failures", [])) for r in self.records if not r.get("error")),
                "obligations_trivially_identical": n_triv,
                "obligations_decided_by_z3": n_claims - n_triv,
                "obligations_decided_by_canonical_linear_form": sum(r.get("n_by_normal_form", 0) for r in self.records),
                "scenario_instances": len(self.records),
                "solver": stats_total,
                "functions_encoded": self.functions,
                "source_hashes": _hashes(self.files),
                "bounds": self.bounds,
                "outside_the_claim": self.outside,
                "known_findings_hit": sorted(seen),
                "inconclusive": inconclusive[:20],
                "explanation": self.title,
                **self.extra,
            },
            "assumptions": self.assumptions,
            "wall_s": round(wall, 2),
            "violations": len(violations),
        }
        evdir = os.environ.get("VERIF_EVIDENCE_DIR", os.path.join(VERIF, "evidence"))
        os.makedirs(evdir, exist_ok=True)
        with open(os.path.join(evdir, f"{self.pid}.json"), "w") as fh:
            json.dump(ev, fh, indent=1, default=str)
        print(f"{self.pid} [{self.tier}] instances={len(self.records)} obligations={n_claims} (non-trivial {nontriv}) queries={stats_total['queries']} "
              f"unsat={stats_total['unsat']} sat={stats_total['sat']} unknown={stats_total['unknown']} solver={stats_total['solver_time_s']}s wall={wall:.1f}s "
              f"violations={len(violations)} known={len(seen)} inconclusive={len(inconclusive)}")
        if violations:
            sys.exit(1)
        if inconclusive:
            sys.exit(2)
        sys.exit(0)

    def _write_replay(self, rec, f):
        d = os.path.join(os.environ.get("VERIF_REPLAY_DIR", os.path.join(VERIF, "replays")), self.pid)
        os.makedirs(d, exist_ok=True)
        data = {"property": self.pid, "scenario": rec["scenario"], "params": rec["params"], "real_t": rec["real_t"], "claim": f["name"], "model": f["model"] or {},
                "cmd": f"./check {self.pid} --replay <this file>"}
        h = hashlib.sha256(json.dumps(data, sort_keys=True).encode()).hexdigest()[:12]
        p = os.path.join(d, h + ".json")
        with open(p, "w") as fh:
            json.dump(data, fh, indent=1)
        return p

    def _replay(self, path):
        env = dict(os.environ)
        env.pop("NUMBA_DISABLE_JIT", None)
        env["VERIF_REPLAY"] = "1"
        mod = sys.modules["__main__"].__file__
        try:
            p = subprocess.run([sys.executable, mod, "--replay", path], capture_output=True, text=True, timeout=900, env=env, cwd=VERIF)
        except subprocess.TimeoutExpired:
            return None, "replay timed out"
        out = p.stdout + p.stderr
        if p.returncode == 1 and "REPLAY reproduced=True" in out:
            return True, p.stdout
        if p.returncode == 0:
            return False, p.stdout
        return None, out


def _hashes(files):
    out = {}
    for f in files:
        p = os.path.join(os.environ.get("VERIF_REPO", "/repo"), f)
        try:
            out[f] = hashlib.sha256(open(p, "rb").read()).hexdigest()[:16]
        except OSError:
            out[f] = "missing"
    return out


def _load_known(pid):
    p = os.path.join(VERIF, "known_findings.json")
    try:
        data = json.load(open(p))
    except OSError:
        return []
    return [k for k in data.get("findings", []) if k.get("property") == pid and k.get("status") == "known"]


def _match_known(known, rec, f):
    for k in known:
        m = k.get("match", {})
        if m.get("scenario") and m["scenario"] != rec["scenario"]:
            continue
        if m.get("claim_prefix") and not f["name"].startswith(m["claim_prefix"]):
            continue
        if any(rec["params"].get(pk) != pv for pk, pv in m.get("params", {}).items()):
            continue
        return k
    return None


def call_with_history(fn, ctx, params):
    """`_earlier` (a dict of parameter overrides, or a list of them) makes the scenario run first with those
    parameters IN THE SAME PROCESS - an earlier object / earlier calls whose claims are not stated - and then
    with the real parameters: the property must hold for the later object whatever was constructed and
    called before it (module-level, class-level and per-generator state are part of the history)."""
    params = dict(params)
    earlier = params.pop("_earlier", None)
    if earlier:
        for ov in (earlier if isinstance(earlier, list) else [earlier]):
            ov = dict(ov)
            saved_hyps, saved_rt = list(ctx.hyps), ctx.real_t
            if "_real_t" in ov:
                ctx.real_t = np_real_t(ov.pop("_real_t"))
            ctx.discard = True
            saved_hooks = (S.HOOKS.decide_bool, S.HOOKS.decide_int)
            if ctx.sym:
                # branches of the earlier run are not forked: any one feasible path of it is a valid history
                def one_bool(cond):
                    r = smt.check_sat(ctx.hyps + [cond], timeout_ms=10000, tag="history:branch", want_model=False)
                    val = r.status == "sat"
                    ctx.hyps.append(cond if val else S.Not(cond))
                    return val

                def one_int(term):
                    r = smt.check_sat(ctx.hyps + [S.And(S._cmp("le", S.const(-8), term), S._cmp("le", term, S.const(8)))], timeout_ms=10000, tag="history:int")
                    if r.status != "sat":
                        r = smt.check_sat(ctx.hyps, timeout_ms=10000, tag="history:int")
                    env = {v: (r.model or {}).get(v, Fraction(0)) for v in S.free_vars([term])}
                    val = S.evaluate_exact([term], env)[term.hid]
                    v = int(val // 1)
                    ctx.hyps.append(S._cmp("eq", term, S.const(v)))
                    return v

                S.HOOKS.decide_bool, S.HOOKS.decide_int = one_bool, one_int
            try:
                fn(ctx, **{**params, **ov})
            finally:
                S.HOOKS.decide_bool, S.HOOKS.decide_int = saved_hooks
                ctx.discard = False
                ctx.real_t = saved_rt
                ctx.hyps[:] = saved_hyps
                ctx.disable_pruning()
    return fn(ctx, **params)


def _run_task(task, seed):
    name, params, real_t = task
    fn = SCENARIOS[name]
    smt.STATS.__init__()
    ctx = Ctx("sym", real_t=np.float32 if real_t == "float32" else np.float64, seed=seed)
    rec = {"scenario": name, "params": params, "real_t": real_t, "failures": [], "n_claims": 0, "n_trivial": 0, "sample": None, "claim_keys": []}
    t0 = time.time()
    try:
        # every scenario runs under path exploration: a data-dependent branch of the real code on symbolic data
        # (bool()/int() of a term) forks the scenario instead of aborting it
        paths = explore(ctx, lambda: call_with_history(fn, ctx, params), max_paths=getattr(fn, "max_paths", 32), tag="scenario-path")
        rec["paths"] = len(paths)
    except Exception as e:
        ctx.disable_pruning()
        rec["error"] = f"{type(e).__name__}: {e}"
        rec["traceback"] = traceback.format_exc()[-1500:]
        if os.environ.get("VERIF_DEBUG"):
            traceback.print_exc()
    ctx.disable_pruning()
    if getattr(ctx, "path_bound_reached", None):
        rec["notes_path_bound"] = ctx.path_bound_reached
        if not any(c.status != "unsat" for c in ctx.claims) and not rec.get("error"):
            rec["error"] = "path bound reached without a refutation: " + ctx.path_bound_reached
    rec["n_claims"] = len(ctx.claims)
    rec["n_trivial"] = sum(1 for c in ctx.claims if c.trivial)
    rec["claim_keys"] = [c.name for c in ctx.claims if (not c.trivial) or c.compound]
    rec["n_by_normal_form"] = sum(1 for c in ctx.claims if c.trivial and c.compound)
    # vacuity guard: the assumptions of the scenario must be satisfiable
    vh = getattr(ctx, "path_hyps", None) or ctx.hyps
    if vh and not rec.get("error"):
        r = smt.check_sat(vh, timeout_ms=20000, tag="vacuity:assumptions_satisfiable", want_model=False)
        if r.status == "unsat":
            rec["error"] = "assumptions are contradictory (vacuous scenario)"
    for c in ctx.claims:
        if c.status != "unsat":
            rec["failures"].append({"name": c.name, "status": c.status, "model": c.model, "alt_model": getattr(c, "alt_model", None)})
    nt = [c for c in ctx.claims if not c.trivial]
    if nt:
        c = nt[len(nt) // 2]
        rec["sample"] = {"claim": c.name, "result": c.status, "solver_s": round(c.time, 4), "free_variables_in_scenario": ctx.var_count, "hypotheses": len(ctx.hyps)}
    rec["stats"] = smt.STATS.as_dict()
    rec["wall_s"] = round(time.time() - t0, 2)
    rec["notes"] = ctx.notes
    try:
        from symsopht import graph as _graph

        if _graph.UNCLASSIFIED:
            rec["notes"] = list(rec["notes"]) + [f"arrays not named by the harness policy, kept at their constructed (concrete) content: {sorted(_graph.UNCLASSIFIED)}"]
    except Exception:
        pass
    rec["worst_case"] = ctx.worst_case
    return rec


_MODS = None


def sopht_modules():
    """(sopht, spne, sps, spu) loaded through the shim; JIT disabled only for symbolic runs"""
    global _MODS
    if _MODS is None:
        from symsopht import load

        load.bootstrap(disable_jit=not os.environ.get("VERIF_REPLAY"))
        import sopht  # noqa
        import sopht.numeric.eulerian_grid_ops as spne
        import sopht.simulator as sps
        import sopht.utils as spu

        _MODS = (sopht, spne, sps, spu)
    return _MODS


def np_real_t(name):
    return np.float32 if name == "float32" else np.float64


# =========================================================================================
# path exploration for data-dependent control flow of the real code (DESIGN 4.4)
# =========================================================================================
class PathLimit(Exception):
    pass


class InstanceBudget(Exception):
    pass


def explore(ctx, fn, max_paths=64, tag="path"):
    """Run fn() once per feasible decision sequence.  Inside fn, `bool(sym)`, `int(sym)` and
    `sym.__index__()` are answered from the current path; ctx.hyps carries the path condition.
    Returns the list of (decisions, return value)."""
    if not ctx.sym:
        return [((), fn())]
    results = []
    todo = [[]]
    base_hyps = list(ctx.hyps)
    n = 0
    while todo:
        prefix = todo.pop()
        n += 1
        if n > max_paths:
            # bounded exploration: the paths explored so far stand, the rest is outside the bound (reported, and the
            # instance is inconclusive unless one of the explored paths already refutes a claim)
            ctx.path_bound_reached = f"more than {max_paths} paths: {len(todo) + 1} pending decision prefixes not explored"
            break
        state = {"pos": 0, "taken": []}

        def feasible(cond):
            if time.time() - ctx.t_start > ctx.instance_budget:
                raise InstanceBudget(f"instance budget of {ctx.instance_budget:.0f} s exhausted during path exploration")
            r = smt.check_sat(ctx.hyps + [cond], timeout_ms=10000, tag=tag + ":feasible", want_model=True)
            if r.status == "unknown":
                r = smt.check_sat(ctx.hyps + [cond], timeout_ms=20000, tag=tag + ":feasible-nlsat", tactic="qfnra-nlsat")
            if r.status == "unknown":
                if cond is S.TRUE:
                    raise S.SymError("path feasibility unknown")
                # undecided feasibility: explore the branch anyway (over-approximation of the path set; a refutation
                # found on it must still reproduce on the real code to be reported)
                ctx.note("a branch of undecided feasibility was explored")
                r = smt.Result("sat", None, r.time, r.tag)
            return r

        def decide_bool(cond):
            i = state["pos"]
            state["pos"] += 1
            if i < len(prefix):
                val = prefix[i]
            else:
                ft = feasible(cond).status == "sat"
                ff = feasible(S.Not(cond)).status == "sat"
                if ft and ff:
                    val = True
                    todo.append(state["taken"] + [False])
                elif ft:
                    val = True
                elif ff:
                    val = False
                else:
                    raise S.SymError("infeasible path reached (contradictory assumptions)")
            state["taken"].append(val)
            ctx.hyps.append(cond if val else S.Not(cond))
            return val

        def decide_int(term):
            # enumerate feasible integer values one at a time: fork on term == v
            while True:
                # prefer small magnitudes (an integer that drives a loop count should not be astronomically large)
                small = S.And(S._cmp("le", S.const(-8), term), S._cmp("le", term, S.const(8)))
                r = smt.check_sat(ctx.hyps + [small], timeout_ms=5000, tag=tag + ":feasible-small", want_model=True)
                if r.status != "sat":
                    r = feasible(S.TRUE)
                m = r.model
                env = {v: m.get(v, Fraction(0)) for v in S.free_vars([term])}
                try:
                    val = S.evaluate_exact([term], env)[term.hid]
                except S.SymError:
                    env2 = {v: float(x) for v, x in env.items()}
                    val = Fraction(S.evaluate([term], env2)[term.hid])
                v = int(val) if val.denominator == 1 else int(val // 1)
                if decide_bool(S._cmp("eq", term, S.const(v))):
                    return v

        old = (S.HOOKS.decide_bool, S.HOOKS.decide_int)
        S.HOOKS.decide_bool, S.HOOKS.decide_int = decide_bool, decide_int
        try:
            ret = fn()
        finally:
            S.HOOKS.decide_bool, S.HOOKS.decide_int = old
            ctx.path_hyps = list(ctx.hyps)  # assumptions + path condition of the path just finished (vacuity guard)
            ctx.hyps[:] = base_hyps
        results.append((tuple(state["taken"]), ret))
    return results


def view_with_identity_of(dead_id, arr, tries=64):
    """A fresh wrapper object (`arr.view()`) of arr; when CPython hands out the address of a dead object again - which it
    does as a rule for an object of the same type created right after the other one died - the wrapper has the *identity*
    (id()) of that dead object although it denotes different memory.  Call histories in which an argument object reuses the
    identity of an earlier, dead argument are ordinary Python histories; code keyed on id() sees them as 'the same object'.
    Returns (view, identity_was_reused)."""
    held = []
    v = arr.view()
    n = 0
    while id(v) != dead_id and n < tries:
        held.append(v)
        v = arr.view()
        n += 1
    ok = id(v) == dead_id
    del held
    return v, ok


def bound_vars(ctx, arr, lo=-1, hi=1):
    """assume lo <= v <= hi for every cell (tolerance obligations quantify over a bounded box)"""
    if ctx.sym:
        for v in np.asarray(arr).reshape(-1):
            ctx.hyps.append(S.And(v >= lo, v <= hi))
    else:
        a = np.asarray(arr)
        if a.size and (a.min() < lo - 1e-12 or a.max() > hi + 1e-12):
            raise ReplayInvalid("model outside the variable box")


def close(ctx, name, impl, ref, tol):
    """tolerance obligation |impl - ref| <= tol (absolute; inputs bounded by bound_vars)"""
    if ctx.discard:
        return
    if not ctx.sym:
        if ctx.target is not None and name != ctx.target:
            return
        a, b = float(impl), float(ref)
        bad = not (abs(a - b) <= tol)
        if bad:
            ctx.replay_result = (True, f"{name}: |{a!r} - {b!r}| > {tol}")
        elif ctx.replay_result is None:
            ctx.replay_result = (False, f"{name}: |{a!r} - {b!r}| <= {tol}")
        return
    d = S.lift(impl) - S.lift(ref)
    if d is S.ZERO:
        ctx._record(Claim(name, "unsat", trivial=True))
        return
    dd, c0 = d.lin()
    if all(a.op == "v" for a in dd):
        # affine in box-bounded variables: the exact worst case is sum|c| + |c0| (reported as margin, not deciding)
        wc = float(sum(abs(c) for c in dd.values()) + abs(c0))
        key = name.split("[")[0]
        ctx.worst_case[key] = max(ctx.worst_case.get(key, 0.0), wc)
    tolf = Fraction(tol).limit_denominator(10**30)
    if all(a.op == "v" for a in dd) and dd:
        # affine form with very long rational coefficients (exact DFT twiddles): give the solver a sound
        # strengthening with coefficients rounded to 30 decimals: |sum c x + c0| <= |sum c~ x + c~0| + (n+1)*1e-30
        q = 10**30
        d2 = {a: Fraction(round(c * q), q) for a, c in dd.items()}
        c2 = Fraction(round(c0 * q), q)
        d = S.mk_lin({a: c for a, c in d2.items() if c != 0}, c2)
        tolf = tolf - Fraction(len(dd) + 1, q)
    tol = S.lift(tolf)
    ctx.claim(name, S.And(d <= tol, -d <= tol), robust=[S.Or(d >= k, -d >= k) for k in (S.lift(Fraction(1, 100)), S.lift(Fraction(1, 10**5)), 10 * tol)])


def close_array(ctx, name, impl, ref, tol, cells=None):
    if ctx.discard:
        return
    impl_a = np.asarray(impl)
    ref_a = np.broadcast_to(np.asarray(ref), impl_a.shape)
    for idx in (cells if cells is not None else np.ndindex(*impl_a.shape)):
        if ctx.sym and ctx.too_many_failures():
            return
        close(ctx, f"{name}[{','.join(map(str, idx))}]", impl_a[idx], ref_a[idx], tol)


def merge_equal_radicands(ctx, roots):
    """SMT-sweeping style lemma step: sqrt applications whose radicands are proved equal (z3) under the
    assumptions are replaced by one representative.  Candidates are proposed by numeric simulation."""
    if not ctx.sym or ctx.discard:
        return roots
    roots = [S.lift(r) for r in roots]
    apps = [n for n in S.topo(roots) if n.op == "app" and n.args[0] == "sqrt"]
    if len(apps) < 2:
        return roots
    fv = sorted(S.free_vars([a.args[1] for a in apps]), key=lambda v: v.hid)
    sigs = []
    for trial in range(3):
        env = {v: ctx.rng.uniform(0.1, 0.9) for v in fv}
        val = S.evaluate([a.args[1] for a in apps], env)
        sigs.append([val[a.args[1].hid] for a in apps])
    mapping = {}
    reps = []
    for i, a in enumerate(apps):
        for j in reps:
            if all(abs(sigs[t][i] - sigs[t][j]) <= 1e-9 * max(1.0, abs(sigs[t][i])) for t in range(3)):
                r = smt.prove(ctx.hyps, S._cmp("eq", a.args[1], apps[j].args[1]), timeout_ms=5000, tag="lemma:radicands_equal", prefer="nlsat")
                if r.status == "unsat":
                    mapping[a] = apps[j]
                    break
        else:
            reps.append(i)
    if not mapping:
        return roots
    return S.substitute(roots, mapping)


# =========================================================================================
# size-gated code paths: distinct code variants of a generated kernel over a range of a size parameter
# =========================================================================================
def code_signature(fn, size=None, _depth=0):
    """structural signature of a Python callable: byte code, names, constants (recursively) and the non-array closure
    contents (functions recursively; ints equal to `size` are the size itself and are left out)."""
    import types

    fn = getattr(fn, "py_func", fn)  # numba dispatcher -> its Python function
    code = getattr(fn, "__code__", None)
    if code is None or _depth > 4:
        return ("obj", type(fn).__name__, getattr(fn, "__name__", ""))

    def const_sig(c):
        if isinstance(c, types.CodeType):
            return ("code", c.co_code, c.co_names, tuple(const_sig(x) for x in c.co_consts))
        if isinstance(c, (int, float, str, bytes, bool, type(None), complex)):
            return c
        if isinstance(c, tuple):
            return tuple(const_sig(x) for x in c)
        return type(c).__name__

    cells = []
    for name, cell in zip(code.co_freevars, fn.__closure__ or ()):
        try:
            v = cell.cell_contents
        except ValueError:
            continue
        if isinstance(v, bool) or v is None or isinstance(v, str):
            cells.append((name, v))
        elif isinstance(v, (int, float)):
            cells.append((name, "<number>"))  # numeric closure values (sizes, spacings) are data, not code
        elif isinstance(v, type):
            cells.append((name, "type", getattr(v, "__module__", ""), getattr(v, "__qualname__", "")))
        elif callable(v):
            cells.append((name, code_signature(v, size, _depth + 1)))
        elif isinstance(v, np.ndarray):
            cells.append((name, "array", v.ndim, str(v.dtype)))
        else:
            cells.append((name, type(v).__name__))
    return ("fn", code.co_code, code.co_names, tuple(const_sig(c) for c in code.co_consts), tuple(cells))


def size_variants(make, sizes):
    """make(n) -> callable.  Returns [(smallest n, signature)] per distinct code variant, in order of first appearance."""
    seen = {}
    for n in sizes:
        sig = code_signature(make(n), n)
        if sig not in seen:
            seen[sig] = n
    return sorted(seen.values())
