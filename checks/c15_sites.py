"""C15(b): call-site aliasing.  Every pystencils kernel call made during symbolic runs of the
simulator / solver / filter / SSP-RK3 configurations is logged with the memory extent (root buffer,
element offset, element strides, shape) of each bound array.  For every pair (written access,
any access) whose arrays share a root buffer, a QF_LIA query asks for two DISTINCT cells of the
iteration box that touch the same address; it must be unsat."""
import os
import sys
import time

sys.path.insert(0, os.path.dirname(os.path.dirname(os.path.abspath(__file__))))
import numpy as np  # noqa: E402
import z3  # noqa: E402

from checks.common import Claim, scenario, sopht_modules  # noqa: E402
from symsopht import smt  # noqa: E402


def _check_log(ctx, log, label):
    from symsopht.iranalysis import IRInfo

    ir_cache = {}
    nq = 0
    seen = set()
    for ci, call in enumerate(log):
        h = call["handle"]
        fields = call["fields"]
        key = (id(h), tuple(sorted((n, v[1], v[2], v[3]) for n, v in fields.items())), tuple(sorted((n, v[0]) for n, v in fields.items())))
        if key in seen:
            continue
        seen.add(key)
        ir = ir_cache.get(id(h))
        if ir is None:
            ir = ir_cache[id(h)] = IRInfo(h)
        subst = []
        for n, (f, d) in ir.size_sym.items():
            subst.append((ir.zint(n), z3.IntVal(int(fields[f][3][d]))))
        sub, box1 = ir.box()
        sub2, box2 = ir.box("_p")
        box1 = z3.substitute(box1, *subst) if subst else box1
        box2 = z3.substitute(box2, *subst) if subst else box2
        if not sub:
            continue
        distinct = z3.Or(*[a != b for (_, a), (_, b) in zip(sub, sub2)])
        ren = [(a, b) for (a, _), (_, b) in zip(sub, sub2)]

        def addr(fname, idx, second):
            root, off, strides, shape = fields[fname]
            e = z3.IntVal(int(off))
            for d, ie in idx.items():
                ie2 = z3.substitute(ie, *ren) if second else ie
                e = e + ie2 * int(strides[d])
            return e

        for (fw, is_w, iw) in ir.accesses:
            if not is_w:
                continue
            for (fx, xw, ix) in ir.accesses:
                if fields[fx][0] != fields[fw][0]:
                    continue
                cons = [box1, box2, distinct, addr(fw, iw, False) == addr(fx, ix, True)]
                s = z3.Solver()
                s.set("timeout", 20000)
                s.add(*cons)
                t0 = time.time()
                r = str(s.check())
                dt = time.time() - t0
                smt.STATS.record("call_site_alias", r, dt, 0)
                nq += 1
                name = f"{label}:call{ci}:{h.name}:{fw}<-{fx}"
                ctx.claims.append(Claim(name, r, {}, time_=dt))
                if r != "unsat":
                    ctx.nfail += 1
    ctx.note(f"{label}: {len(log)} kernel calls, {len(seen)} distinct bindings, {nq} alias queries")


def _check_frames(ctx, frames, log, label):
    """wrapper level: within ONE call of a public kernel (the callable a gen_* function returns), memory that the caller
    passed under two different argument names must not be written by one compiled kernel and read by a later one (the
    in-place elementwise pattern - same kernel, same cell - is the intra-kernel query above and is allowed)."""
    from symsopht.iranalysis import IRInfo

    nq = 0
    seen = set()
    for fr in frames:
        names = sorted(fr["params"])
        pairs = [(p, q) for i, p in enumerate(names) for q in names[i + 1:] if fr["params"][p][0] == fr["params"][q][0]]
        inner = log[fr["first"]:fr["last"]]
        if not pairs or len(inner) < 2:
            continue
        key = (fr["name"], tuple((n, fr["params"][n][1:]) for n in names), tuple(id(c["handle"]) for c in inner))
        if key in seen:
            continue
        seen.add(key)
        infos = []
        for c in inner:
            ir = IRInfo(c["handle"])
            subst = [(ir.zint(n), z3.IntVal(int(c["fields"][f][3][d]))) for n, (f, d) in ir.size_sym.items()]
            infos.append((ir, subst))

        def member(A, ext, tag):
            _, off, strides, shape = ext
            ks = [z3.Int(f"{tag}_{d}") for d in range(len(shape))]
            return [A == int(off) + sum(k * int(st) for k, st in zip(ks, strides))] + [z3.And(k >= 0, k < int(n)) for k, n in zip(ks, shape)]

        for p, q in pairs:
            for i, ci in enumerate(inner):
                iri, si = infos[i]
                subi, boxi = iri.box("_w")
                boxi = z3.substitute(boxi, *si) if si else boxi
                for (fw, is_w, iw) in iri.accesses:
                    if not is_w or ci["fields"][fw][0] != fr["params"][p][0]:
                        continue
                    for j in range(i + 1, len(inner)):
                        cj = inner[j]
                        irj, sj = infos[j]
                        subj, boxj = irj.box("_r")
                        boxj = z3.substitute(boxj, *sj) if sj else boxj
                        for (fx, xw, ix) in irj.accesses:
                            if xw or cj["fields"][fx][0] != fr["params"][p][0]:
                                continue
                            A = z3.Int("addr")

                            def addr(call, ir_, fname, idx, suffix):
                                _, off, strides, _ = call["fields"][fname]
                                ren = [(a, b) for (a, _), (_, b) in zip(ir_.box()[0], ir_.box(suffix)[0])]
                                e = z3.IntVal(int(off))
                                for d, ie in idx.items():
                                    e = e + z3.substitute(ie, *ren) * int(strides[d])
                                return e

                            s = z3.Solver()
                            s.set("timeout", 20000)
                            s.add(boxi, boxj, A == addr(ci, iri, fw, iw, "_w"), A == addr(cj, irj, fx, ix, "_r"))
                            s.add(*member(A, fr["params"][p], "kp"), *member(A, fr["params"][q], "kq"))
                            t0 = time.time()
                            r = str(s.check())
                            dt = time.time() - t0
                            smt.STATS.record("public_call_alias", r, dt, 0)
                            nq += 1
                            name = f"public:{label}:{fr['name']}:{p}~{q}:{ci['handle'].name}.{fw}->{cj['handle'].name}.{fx}"
                            ctx.claims.append(Claim(name, r, {}, time_=dt))
                            if r != "unsat":
                                ctx.nfail += 1
    ctx.note(f"{label}: {len(frames)} public kernel calls, {len(seen)} with arguments sharing a buffer, {nq} wrapper-level alias queries")


@scenario
def flow_step_call_sites(ctx, cfg):
    from symsopht import load
    from checks.flowstep import run_step

    if not ctx.sym:
        return _replay(ctx, cfg)
    load.CALL_LOG.clear()
    load.HAZARDS.clear()
    load.PUBLIC_FRAMES.clear()
    load.patch_public_generators()
    load.LOG_CALLS[0] = True
    try:
        run_step(ctx, cfg, cuts=False, trivial_fft=True)
    finally:
        load.LOG_CALLS[0] = False
        load.unpatch_public_generators()
    _check_log(ctx, list(load.CALL_LOG), "step")
    _check_frames(ctx, list(load.PUBLIC_FRAMES), list(load.CALL_LOG), "step")
    ctx.claim("interpreter_saw_no_cross_cell_hazard", len(load.HAZARDS) == 0)


def _replay(ctx, cfg):
    """numeric demonstration of a call-site hazard: run the real compiled step with 1 and with 8 OpenMP threads is not
    deterministic; instead re-run the step through the IR interpreter in forward and reversed cell order (C15(a) style)"""
    from symsopht import load, interp
    from checks.flowstep import run_step
    from checks.common import Ctx

    sopht_modules()
    if (ctx.target or "").startswith("public:"):
        # wrapper-level hazard: run the real compiled step; every public kernel whose arguments share memory is also run
        # on de-aliased copies and the outputs are compared
        import random

        rnd = random.Random(0)
        ctx._num = lambda name, default: rnd.uniform(0.1, 1.0)  # the hazard does not depend on the data: generic values
        load.DEALIAS_FINDINGS.clear()
        load.patch_public_generators()
        load.DEALIAS_COMPARE[0] = True
        try:
            run_step(ctx, cfg, cuts=False)
        finally:
            load.DEALIAS_COMPARE[0] = False
            load.unpatch_public_generators()
        f = load.DEALIAS_FINDINGS
        ctx.replay_result = (bool(f), f[0] if f else "every public kernel call with arguments sharing memory equals its de-aliased twin")
        return
    res = []
    for rev in (False, True):
        c2 = Ctx("sym", seed=1)
        load.HAZARDS.clear()
        interp.FORCE_SEQUENTIAL[0] = ("rev" if rev else "fwd")
        try:
            r = run_step(c2, cfg, cuts=False, trivial_fft=True)
        finally:
            interp.FORCE_SEQUENTIAL[0] = None
        res.append((r["w1"].copy(), r["u1"].copy()))
    from symsopht import sym as S
    import random

    same = True
    rnd = random.Random(0)
    for a, b in zip(res[0], res[1]):
        fa, fb = [S.lift(v) for v in np.asarray(a).reshape(-1)], [S.lift(v) for v in np.asarray(b).reshape(-1)]
        if all(x is y for x, y in zip(fa, fb)):
            continue
        env = {v: rnd.uniform(-1, 1) for v in S.free_vars(fa + fb)}
        va, vb = S.evaluate(fa, env), S.evaluate(fb, env)
        if any(abs(va[x.hid] - vb[y.hid]) > 1e-9 for x, y in zip(fa, fb)):
            same = False
    ctx.replay_result = (not same, "forward vs reversed cell order of every kernel of the step " + ("agree" if same else "differ"))


@scenario
def kernel_wrappers_call_sites(ctx, which):
    """filters, SSP-RK3, stretching, Poisson solvers called the way the library documents (views of one buffer etc.)"""
    from symsopht import load

    _, spne, sps, _ = sopht_modules()
    load.CALL_LOG.clear()
    load.HAZARDS.clear()
    load.PUBLIC_FRAMES.clear()
    load.patch_public_generators()
    load.LOG_CALLS[0] = True
    try:
        if which == "filter":
            buf = ctx.array("buf", (3, 6, 6, 7))
            for ftype in ("multiplicative", "convolution"):
                k = spne.gen_laplacian_filter_kernel_3d(filter_order=2, filter_flux_buffer=buf[0], field_buffer=buf[1], real_t=ctx.real_t, num_threads=4, field_type="vector", filter_type=ftype)
                k(vector_field=ctx.array("w", (3, 6, 6, 7)))
        elif which == "ssprk3":
            mid = ctx.array("mid", (3, 5, 5, 6))
            k = spne.gen_vorticity_stretching_timestep_ssprk3_pyst_kernel_3d(real_t=ctx.real_t, midstep_buffer_vector_field=mid, num_threads=4)
            k(vorticity_field=ctx.array("w", (3, 5, 5, 6)), velocity_field=ctx.array("u", (3, 5, 5, 6)), vorticity_stretching_flux_field=ctx.array("fl", (3, 5, 5, 6)), dt_by_2_dx=ctx.scalar("p"))
            k2 = spne.gen_vorticity_stretching_timestep_euler_forward_pyst_kernel_3d(real_t=ctx.real_t, num_threads=4)
            k2(vorticity_field=ctx.array("w2", (3, 5, 5, 6)), velocity_field=ctx.array("u2", (3, 5, 5, 6)), vorticity_stretching_flux_field=ctx.array("fl2", (3, 5, 5, 6)), dt_by_2_dx=ctx.scalar("p2"))
        elif which == "poisson":
            from checks.c03 import make_solver, symbolise_solver

            for dim, shape in ((2, (3, 4)), (3, (2, 3, 2))):
                s = make_solver(ctx, dim, shape, 1.0)
                symbolise_solver(ctx, s, tag=f"ps{dim}")
                if dim == 2:
                    s.solve(solution_field=ctx.array("sol", shape), rhs_field=ctx.array("rhs", shape))
                else:
                    s.vector_field_solve(solution_vector_field=ctx.array("sol3", (3, *shape)), rhs_vector_field=ctx.array("rhs3", (3, *shape)))
        elif which == "interaction":
            from checks.c10 import LAYOUTS, _build

            for dim in (2, 3):
                grid = (8,) * dim
                E, u = ctx.array(f"E{dim}", (dim, *grid)), ctx.array(f"u{dim}", (dim, *grid))
                h = {"pos": LAYOUTS[dim][0], "vel": ctx.array(f"vb{dim}", (dim, 2))}
                inter, *_ = _build(ctx, dim, grid, f"b{dim}", E, u, True, h, 2.0, 0.5, 0.1)
                inter()
    finally:
        load.LOG_CALLS[0] = False
        load.unpatch_public_generators()
    _check_log(ctx, list(load.CALL_LOG), which)
    _check_frames(ctx, list(load.PUBLIC_FRAMES), list(load.CALL_LOG), which)
    ctx.claim("interpreter_saw_no_cross_cell_hazard", len(load.HAZARDS) == 0)


def _structure(sim):
    """aliasing partition of the arrays reachable from the object (which attribute paths share one root buffer)"""
    from symsopht import graph

    groups = {}
    for f in graph.find_arrays(sim, "obj"):
        groups.setdefault(id(graph._typed_root(f.arr)), set()).add(f.path)
    return sorted(sorted(g) for g in groups.values() if len(g) > 1)


@scenario
def thread_count_selects_no_code_path(ctx, cfg):
    """'bit-identical for any number of threads' needs more than race freedom: the thread count must not select different
    buffers or different kernels.  The simulator is built with 1 and with 4 threads; the aliasing structure of its arrays
    and the sequence of compiled kernels called by one step must coincide (structural claim; replay compares the same
    structure on the real build)."""
    from symsopht import load
    from checks.flowstep import build_sim, run_step

    sopht_modules()
    res = []
    for th in (1, 4):
        c = dict(cfg, threads=th)
        if ctx.sym:
            load.CALL_LOG.clear()
            load.LOG_CALLS[0] = True
            try:
                r = run_step(ctx, c, tag=f"t{th}_", cuts=False, trivial_fft=True)
            finally:
                load.LOG_CALLS[0] = False
            calls = [call["handle"].name for call in load.CALL_LOG]
            # aliasing structure of the object as the real constructor builds it (before the harness symbolises it)
            res.append((_structure(build_sim(ctx, c)), calls))
        else:
            sim = build_sim(ctx, c)
            res.append((_structure(sim), None))
    same_struct = res[0][0] == res[1][0]
    if ctx.sym:
        ctx.claims.append(Claim("array_aliasing_structure_independent_of_thread_count", "unsat" if same_struct else "sat", {}, trivial=False))
        same_calls = res[0][1] == res[1][1]
        ctx.claims.append(Claim("kernel_call_sequence_independent_of_thread_count", "unsat" if same_calls else "sat", {}, trivial=False))
        ctx.nfail += (not same_struct) + (not same_calls)
    else:
        diff = [g for g in res[0][0] if g not in res[1][0]] + [g for g in res[1][0] if g not in res[0][0]]
        ctx.replay_result = (not same_struct, f"arrays sharing memory differ between 1 and 4 threads: {diff[:3]}" if not same_struct else "same aliasing structure with 1 and 4 threads")


# heavy scenarios: a data-dependent branch introduced into the step forks them; keep the exploration bound small
flow_step_call_sites.max_paths = 4


def schedule(chk):
    from checks.c01 import configs

    cfgs = configs(True)
    if True:
        full = configs(False)
        # every (kind, forcing, free stream, filter type, solver) combination once
        seen = set()
        for c in full:
            key = (c["kind"], c.get("forcing"), c.get("free_stream"), (c.get("filter") or (None,))[0], c.get("solver"), c.get("field_type"))
            if key not in seen and not c.get("stub_poisson"):
                seen.add(key)
                cfgs.append(c)
    for c in cfgs:
        c = dict(c)
        c["threads"] = 4
        # memory extents do not depend on the grid size: use the small grids throughout
        if c["kind"] == "ns2d":
            c["shape"] = (6, 7)
        elif c["kind"] == "ns3d":
            c["shape"] = (4, 4, 5)
            c.pop("stub_poisson", None)
        chk.add(flow_step_call_sites, cfg=c)
    for which in ("filter", "ssprk3", "poisson", "interaction"):
        chk.add(kernel_wrappers_call_sites, which=which)
    for c in (dict(kind="ns2d", shape=(6, 7), forcing=True, free_stream=True, width=1),
              dict(kind="ns3d", shape=(4, 4, 5), forcing=True, free_stream=False, filter=("multiplicative", 1), solver="greens_function_convolution", width=1),
              dict(kind="ns3d", shape=(4, 4, 5), forcing=False, free_stream=True, filter=None, solver="fast_diagonalisation", width=0),
              dict(kind="passive", shape=(5, 6, 5), field_type="vector")):
        chk.add(thread_count_selects_no_code_path, cfg=c)
