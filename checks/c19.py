#!/usr/bin/env python
"""C19 - stabilising operators never amplify and leave admissible states fixed.

Brinkmann penalisation (Eulerian kernels, fixed-value variants, vector wrappers, Lagrangian variant),
sine-Heaviside characteristic function (sin as a real variable per application + instantiated
axioms), boundary-zone damping (real wrappers, widths 0..6) and the Laplacian filters (orders 1..4,
both types, all Fourier modes through the three-term recurrence of sampled sinusoids)."""
import itertools
import os
import sys
from fractions import Fraction

sys.path.insert(0, os.path.dirname(os.path.dirname(os.path.abspath(__file__))))
import numpy as np  # noqa: E402

from checks.common import Check, bound_vars, close, scenario, sopht_modules  # noqa: E402


# ------------------------------------------------------------------------------------- Brinkmann
@scenario
def brinkmann(ctx, variant, dim, field_type, inplace="none"):
    _, spne, _, _ = sopht_modules()
    shape = (2,) * dim
    lam = ctx.scalar("penalty", nonneg=True, default=2.0)
    cells = list(np.ndindex(*shape))
    if variant == "lagrangian":
        import importlib

        importlib.import_module("sopht.numeric.immersed_boundary_ops.experimental.BrinkmannBoundaryForcing")
        mod = sys.modules["sopht.numeric.immersed_boundary_ops.experimental.BrinkmannBoundaryForcing"]
        n = 3
        u, ub, out = ctx.array("u", (dim, n)), ctx.array("ub", (dim, n)), ctx.array("out0", (dim, n))
        u_in, ub_in = u.copy(), ub.copy()
        # in-place use: the output buffer is the flow-velocity buffer or the body-velocity buffer itself
        out = u if inplace == "field" else ub if inplace == "target" else out
        dt = ctx.scalar("dt", nonneg=True, default=0.1)
        mod.BrinkmannBoundaryForcing.brinkmann_penalise_lag_grid_velocity_field(out, u, ub, lam, dt)
        triples = [(out[c], u_in[c], ub_in[c], lam * dt) for c in np.ndindex(dim, n)]
    else:
        chi = ctx.array("chi", shape, default=0.5)
        for c in cells:
            ctx.assume(chi[c] >= 0)
        nc = dim if field_type == "vector" else 1
        fs = (nc, *shape) if field_type == "vector" else shape
        u, out = ctx.array("u", fs), ctx.array("out0", fs)
        if variant == "field":
            gen = spne.gen_brinkmann_penalise_pyst_kernel_2d if dim == 2 else spne.gen_brinkmann_penalise_pyst_kernel_3d
            k = gen(real_t=ctx.real_t, num_threads=False, field_type=field_type)
            ub = ctx.array("ub", fs)
            u_in, ub_in = u.copy(), ub.copy()
            out = u if inplace == "field" else ub if inplace == "target" else out
            if field_type == "scalar":
                k(penalised_field=out, field=u, char_field=chi, penalty_field=ub, penalty_factor=ctx.cast(lam))
            else:
                k(penalised_vector_field=out, penalty_factor=ctx.cast(lam), char_field=chi, penalty_vector_field=ub, vector_field=u)
            u, ub = u_in, ub_in
            tgt = lambda c: ub[c]
        else:
            k = spne.gen_brinkmann_penalise_vs_fixed_val_pyst_kernel_2d(real_t=ctx.real_t, num_threads=False, field_type=field_type)
            if field_type == "scalar":
                pv = ctx.scalar("target", default=0.3)
                k(penalised_field=out, field=u, char_field=chi, penalty_val=ctx.cast(pv), penalty_factor=ctx.cast(lam))
                tgt = lambda c: pv
            else:
                pvs = [ctx.scalar(f"target{i}", default=0.3 * i) for i in range(dim)]
                k(penalised_vector_field=out, penalty_factor=ctx.cast(lam), char_field=chi, penalty_val=[ctx.cast(v) for v in pvs], vector_field=u)
                tgt = lambda c: pvs[c[0]]
        triples = []
        for c in np.ndindex(*fs):
            cc = c[-dim:]
            triples.append((out[c], u[c], tgt(c), lam * chi[cc]))
    ctx.prefer = "nlsat"
    for i, (o, uu, t, th) in enumerate(triples):
        # convex combination: (o - u)(o - t) <= 0  <=>  o between u and t
        if ctx.sym:
            ctx.claim(f"between_field_and_target[{i}]", (o - uu) * (o - t) <= 0)
        else:
            lo, hi = min(uu, t), max(uu, t)
            ctx.claim(f"between_field_and_target[{i}]", lo - ctx.tol * max(1, abs(lo)) <= o <= hi + ctx.tol * max(1, abs(hi)))
        ctx.eq(f"distance_to_target_contracts_by_1/(1+penalty*indicator)[{i}]", (o - t) * (1 + th), uu - t)


@scenario
def brinkmann_zero_indicator(ctx, dim):
    _, spne, _, _ = sopht_modules()
    shape = (2,) * dim
    gen = spne.gen_brinkmann_penalise_pyst_kernel_2d if dim == 2 else spne.gen_brinkmann_penalise_pyst_kernel_3d
    k = gen(real_t=ctx.real_t, num_threads=False, field_type="scalar")
    u, ub, out = ctx.array("u", shape), ctx.array("ub", shape), ctx.array("out0", shape)
    lam = ctx.scalar("penalty", nonneg=True, default=5.0)
    k(penalised_field=out, field=u, char_field=ctx.zeros(shape), penalty_field=ub, penalty_factor=ctx.cast(lam))
    ctx.eq_array("indicator_zero_leaves_field", out, u)


# ------------------------------------------------------------------------------------- characteristic function
@scenario
def char_function(ctx, dim, blend, case):
    _, spne, _, _ = sopht_modules()
    gen = spne.gen_char_func_from_level_set_via_sine_heaviside_pyst_kernel_2d if dim == 2 else spne.gen_char_func_from_level_set_via_sine_heaviside_pyst_kernel_3d
    k = gen(blend_width=blend, real_t=ctx.real_t, num_threads=False)
    shape = (1,) * (dim - 1) + (2,)
    phi = ctx.zeros(shape)
    out = ctx.array("out0", shape)
    i0, i1 = (0,) * (dim - 1) + (0,), (0,) * (dim - 1) + (1,)
    w = blend
    # the kernel bakes pi/blend_width and 1/pi as constants of the working precision
    tol = 1e-12 if ctx.real_t == np.float64 else 1e-5
    if case == "below":
        p = ctx.scalar("phi", default=-2 * w)
        ctx.assume(p < -w)
        phi[i0] = p
        phi[i1] = p
        k(char_func_field=out, level_set_field=phi)
        ctx.eq("H=0_below_-w", out[i0], 0.0)
    elif case == "above":
        p = ctx.scalar("phi", default=2 * w)
        ctx.assume(p > w)
        phi[i0] = p
        phi[i1] = p
        k(char_func_field=out, level_set_field=phi)
        ctx.eq("H=1_above_w", out[i0], 1.0)
    elif case == "at_edges":
        phi[i0] = -w
        phi[i1] = w
        k(char_func_field=out, level_set_field=phi)
        close(ctx, "H(-w)=0_up_to_rounding", out[i0], 0.0, tol)
        close(ctx, "H(w)=1_up_to_rounding", out[i1], 1.0, tol)
    elif case == "range_and_symmetry":
        p = ctx.scalar("phi", default=0.3 * w)
        ctx.assume(p >= -w)
        ctx.assume(p <= w)
        phi[i0] = p
        phi[i1] = -p
        k(char_func_field=out, level_set_field=phi)
        ctx.prefer = "nlsat"
        # documented closed form inside the blend zone (the C13 part for this kernel)
        cpref = float(np.pi / w)
        if ctx.sym:
            from symsopht import sym as S

            sn = S.app("sin", S.lift(cpref) * p)
        else:
            sn = np.sin(cpref * p)
        close(ctx, "H=0.5*(1+phi/w+sin(pi*phi/w)/pi)_inside_blend_zone", out[i0], 0.5 * (1 + p / w + sn / float(np.pi)), tol)
        ctx.le("H>=0", -tol, out[i0])
        ctx.le("H<=1", out[i0], 1.0 + tol)
        if ctx.sym:
            # at |phi| = w exactly the strict/non-strict branches differ: examined separately (case at_edges)
            ctx.assume(p > -w)
            ctx.assume(p < w)
        close(ctx, "H(phi)+H(-phi)=1", out[i0] + out[i1], 1.0, tol)
    else:  # monotone
        p1 = ctx.scalar("phi1", default=-0.2 * w)
        p2 = ctx.scalar("phi2", default=0.4 * w)
        ctx.assume(p1 >= -w)
        ctx.assume(p2 <= w)
        ctx.assume(p1 < p2)
        phi[i0] = p1
        phi[i1] = p2
        k(char_func_field=out, level_set_field=phi)
        ctx.prefer = "nlsat"
        ctx.le("H_non_decreasing", out[i0], out[i1] + tol)


# ------------------------------------------------------------------------------------- boundary zone
@scenario
def boundary_zone(ctx, dim, width, shape, field_type):
    _, spne, sps, _ = sopht_modules()
    shape = tuple(shape)
    sim = sps.PassiveTransportFlowSimulator(kinematic_viscosity=0.1, grid_dim=dim, grid_size=shape, x_range=1.0, real_t=ctx.real_t, num_threads=1)
    if dim == 2:
        k = spne.gen_penalise_field_boundary_pyst_kernel_2d(width=width, dx=sim.dx, x_grid_field=sim.position_field[0], y_grid_field=sim.position_field[1], real_t=ctx.real_t, num_threads=False)
    else:
        k = spne.gen_penalise_field_boundary_pyst_kernel_3d(width=width, dx=sim.dx, x_grid_field=sim.position_field[0], y_grid_field=sim.position_field[1], z_grid_field=sim.position_field[2],
                                                            real_t=ctx.real_t, num_threads=False, field_type=field_type)
    vector = field_type == "vector"
    fs = (3, *shape) if vector else shape
    f = ctx.array("f", fs, default=0.5)
    f0 = f.copy()
    M = ctx.scalar("M", nonneg=True, default=1.0)
    if vector:
        k(vector_field=f)
    else:
        k(field=f)
    comps = [(f[i], f0[i], i) for i in range(3)] if vector else [(f, f0, 0)]
    for fa, fb, ci in comps:
        # inner edge of the zone: cells at index width-1 or n-width along some axis and not farther out along any axis
        if width:
            for c in np.ndindex(*shape):
                inner = all(width - 1 <= i <= n - width for i, n in zip(c, shape))
                on_edge = any(i in (width - 1, n - width) for i, n in zip(c, shape))
                if inner and on_edge:
                    ctx.assume(fb[c] <= M)
                    ctx.assume(fb[c] >= -M)
        for c in np.ndindex(*shape):
            dist = min(min(i, n - 1 - i) for i, n in zip(c, shape))
            name = f"comp{ci}[{','.join(map(str, c))}]"
            if dist >= width:
                ctx.same(f"outside_zone_untouched:{name}", fa[c], fb[c])
            else:
                if dist == 0:
                    # up to rounding: the back-face ramp evaluates sin(p*x_end - p*x) with both products rounded
                    rt = 1e-12 if ctx.real_t == np.float64 else 1e-5
                    ctx.le(f"outermost_ring_is_zero_up_to_rounding:{name}", fa[c], rt * M)
                    ctx.le(f"outermost_ring_is_zero_up_to_rounding(neg):{name}", -rt * M, fa[c])
                ctx.le(f"zone_value_bounded_by_inner_edge_max:{name}", fa[c], M)
                ctx.le(f"zone_value_bounded_below:{name}", -M, fa[c])


@scenario
def boundary_zone_closed_form(ctx, dim, width, shape, field_type):
    """zone value = inner-edge value x quarter-sine ramp, axis by axis (x, then y, then z), for disjoint zones (n >= 2*width)"""
    from checks.common import bound_vars, close_array
    from ref import flow_ref as FR

    _, spne, sps, _ = sopht_modules()
    shape = tuple(shape)
    sim = sps.PassiveTransportFlowSimulator(kinematic_viscosity=0.1, grid_dim=dim, grid_size=shape, x_range=1.0, real_t=ctx.real_t, num_threads=1)
    if dim == 2:
        k = spne.gen_penalise_field_boundary_pyst_kernel_2d(width=width, dx=sim.dx, x_grid_field=sim.position_field[0], y_grid_field=sim.position_field[1], real_t=ctx.real_t, num_threads=False)
    else:
        k = spne.gen_penalise_field_boundary_pyst_kernel_3d(width=width, dx=sim.dx, x_grid_field=sim.position_field[0], y_grid_field=sim.position_field[1], z_grid_field=sim.position_field[2],
                                                            real_t=ctx.real_t, num_threads=False, field_type=field_type)
    vector = field_type == "vector"
    f = ctx.array("f", (3, *shape) if vector else shape, default=0.5)
    bound_vars(ctx, f)
    f0 = f.copy()
    (k(vector_field=f) if vector else k(field=f))
    ref = FR.stage_boundary_zone(f0, width, dim, vector)
    close_array(ctx, "zone_value_is_edge_value_times_ramp", f, ref, 1e-11 if ctx.real_t == np.float64 else 5e-4)


# ------------------------------------------------------------------------------------- filters
def _make_filter(ctx, spne, order, ftype, field_type, shape, tag):
    b1, b2 = ctx.array(f"{tag}flux_buf", shape), ctx.array(f"{tag}field_buf", shape)
    k = spne.gen_laplacian_filter_kernel_3d(filter_order=order, filter_flux_buffer=b1, field_buffer=b2, real_t=ctx.real_t, num_threads=False, field_type=field_type, filter_type=ftype)
    # the caller-owned scratch buffers may be used by anything between generating the kernel and calling it:
    # arbitrary contents at CALL time (not only at generation time)
    b1[...] = ctx.array(f"{tag}flux_buf_at_call", shape)
    b2[...] = ctx.array(f"{tag}field_buf_at_call", shape)
    return k


@scenario
def filter_basic(ctx, order, ftype, field_type):
    _, spne, _, _ = sopht_modules()
    n = 2 * order + 3
    shape = (n, n, n)
    centre = (n // 2,) * 3
    fs = (3, *shape) if field_type == "vector" else shape
    kw = "vector_field" if field_type == "vector" else "scalar_field"
    # (i) independence of prior buffer contents: two copies with different buffers
    f = ctx.array("f", fs)
    fa, fb = f.copy(), f.copy()
    _make_filter(ctx, spne, order, ftype, field_type, shape, "A")(**{kw: fa})
    _make_filter(ctx, spne, order, ftype, field_type, shape, "B")(**{kw: fb})
    ctx.eq_array("independent_of_prior_buffer_contents", fa, fb)
    # (ii) constants are fixed away from the boundary; (iii) checkerboard annihilated
    c = ctx.scalar("const", default=0.7)
    a = ctx.scalar("amp", default=1.3)
    fc = ctx.zeros(fs) + c
    fk = ctx.zeros(fs)
    for idx in np.ndindex(*shape):
        s = 1 if sum(idx) % 2 == 0 else -1
        if field_type == "vector":
            for i in range(3):
                fk[(i, *idx)] = a * s
        else:
            fk[idx] = a * s
    _make_filter(ctx, spne, order, ftype, field_type, shape, "C")(**{kw: fc})
    _make_filter(ctx, spne, order, ftype, field_type, shape, "D")(**{kw: fk})
    cells = [(i, *centre) for i in range(3)] if field_type == "vector" else [centre]
    for cc in cells:
        ctx.eq(f"constant_kept[{cc}]", fc[cc], c)
        ctx.eq(f"checkerboard_annihilated[{cc}]", fk[cc], 0.0)


@scenario
def filter_fourier_symbol(ctx, order, ftype):
    """all Fourier modes: cells obey f[j+1] = 2 c_a f[j] - f[j-1] along each axis (every sampled sinusoid of frequency
    theta_a with cos(theta_a) = c_a, any phase, satisfies this and only those do); output at the centre = lambda(c) * input"""
    _, spne, _, _ = sopht_modules()
    n = 2 * order + 3
    shape = (n, n, n)
    m = n // 2
    cz, cy, cx = (ctx.scalar(f"cos_theta_{a}", lo=-1.0, hi=1.0, default=0.3) for a in "zyx")
    seeds = ctx.array("seed", (2, 2, 2), default=1.0)
    f = ctx.zeros(shape)

    def extend(line, c):
        """line: dict index->value for indices m, m+1; fill 0..n-1 by the recurrence in both directions"""
        for j in range(m + 2, n):
            line[j] = 2 * c * line[j - 1] - line[j - 2]
        for j in range(m - 1, -1, -1):
            line[j] = 2 * c * line[j + 1] - line[j + 2]
        return line

    # x lines for the 4 (z,y) seed pairs, then y, then z
    plane = {}
    for a in range(2):
        for b in range(2):
            line = extend({m: seeds[a, b, 0], m + 1: seeds[a, b, 1]}, cx)
            for i in range(n):
                plane[(a, b, i)] = line[i]
    vol = {}
    for a in range(2):
        for i in range(n):
            line = extend({m: plane[(a, 0, i)], m + 1: plane[(a, 1, i)]}, cy)
            for j in range(n):
                vol[(a, j, i)] = line[j]
    for j in range(n):
        for i in range(n):
            line = extend({m: vol[(0, j, i)], m + 1: vol[(1, j, i)]}, cz)
            for k in range(n):
                f[k, j, i] = line[k]
    f0 = f.copy()
    _make_filter(ctx, spne, order, ftype, "scalar", shape, "F")(scalar_field=f)
    g = [(1 - c) / 2 for c in (cx, cy, cz)]
    gp = [x**order for x in g]
    lam = 1 - gp[0] * gp[1] * gp[2] if ftype == "multiplicative" else (1 - gp[0]) * (1 - gp[1]) * (1 - gp[2])
    ctx.prefer = "nlsat"
    ctx.eq("output_at_centre=lambda(c)*input", f[m, m, m], lam * f0[m, m, m])
    ctx.le("lambda>=0", 0.0, lam)
    ctx.le("lambda<=1", lam, 1.0)


def main():
    chk = Check("C19", "stabilising operators: convexity/contraction of Brinkmann penalisation, range/monotonicity/symmetry of the sine Heaviside, boundedness of the boundary-zone damping, Fourier symbol of the Laplacian filters (z3)",
                functions=["gen_brinkmann_penalise_pyst_kernel_2d/3d", "gen_brinkmann_penalise_vs_fixed_val_pyst_kernel_2d", "BrinkmannBoundaryForcing.brinkmann_penalise_lag_grid_velocity_field",
                           "gen_char_func_from_level_set_via_sine_heaviside_pyst_kernel_2d/3d", "gen_penalise_field_boundary_pyst_kernel_2d/3d", "gen_laplacian_filter_kernel_3d"],
                files=["sopht/numeric/eulerian_grid_ops/stencil_ops_2d/brinkmann_penalise_2d.py", "sopht/numeric/eulerian_grid_ops/stencil_ops_3d/brinkmann_penalise_3d.py",
                       "sopht/numeric/immersed_boundary_ops/experimental/BrinkmannBoundaryForcing.py", "sopht/numeric/eulerian_grid_ops/stencil_ops_2d/char_func_from_level_set_2d.py",
                       "sopht/numeric/eulerian_grid_ops/stencil_ops_3d/char_func_from_level_set_3d.py", "sopht/numeric/eulerian_grid_ops/stencil_ops_2d/penalise_field_boundary_2d.py",
                       "sopht/numeric/eulerian_grid_ops/stencil_ops_3d/penalise_field_boundary_3d.py", "sopht/numeric/eulerian_grid_ops/stencil_ops_3d/laplacian_filter_3d.py"])
    chk.maybe_replay()
    sopht_modules()
    rts = ["float64"] if chk.quick else ["float64", "float32"]
    for rt in rts:
        for dim in (2, 3):
            for ft in ("scalar", "vector"):
                chk.add(brinkmann, real_t=rt, variant="field", dim=dim, field_type=ft)
            chk.add(brinkmann, real_t=rt, variant="lagrangian", dim=dim, field_type="vector")
            for ip in ("field", "target"):
                chk.add(brinkmann, real_t=rt, variant="lagrangian", dim=dim, field_type="vector", inplace=ip)
                chk.add(brinkmann, real_t=rt, variant="field", dim=dim, field_type="vector" if dim == 3 else "scalar", inplace=ip)
            chk.add(brinkmann_zero_indicator, real_t=rt, dim=dim)
            for blend in (0.1, 2 * (1.0 / 16)):
                for case in ("below", "above", "at_edges", "range_and_symmetry", "monotone"):
                    chk.add(char_function, real_t=rt, dim=dim, blend=blend, case=case)
        for ft in ("scalar", "vector"):
            chk.add(brinkmann, real_t=rt, variant="fixed", dim=2, field_type=ft)
        widths = (0, 1, 2, 3) if chk.quick else range(7)
        for w in widths:
            n = max(2 * w + 1, 3)
            chk.add(boundary_zone, real_t=rt, dim=2, width=w, shape=(n, n + 1), field_type="scalar")
            if w <= (2 if chk.quick else 4):
                chk.add(boundary_zone, real_t=rt, dim=3, width=w, shape=(n, n + 1, n + 2), field_type="scalar")
                chk.add(boundary_zone, real_t=rt, dim=3, width=w, shape=(n + 2, n, n + 1), field_type="vector")
        # closed form on non-cubic grids down to the smallest grid with disjoint zones (n = 2*width)
        for w, sh2, sh3 in ((1, (2, 3), (2, 3, 4)), (2, (5, 4), (4, 5, 6)), (3, (6, 7), (7, 6, 8))) if chk.quick else ((1, (2, 3), (2, 3, 4)), (2, (5, 4), (4, 5, 6)), (3, (6, 7), (7, 6, 8)), (4, (8, 9), (8, 9, 10)), (5, (10, 11), (10, 11, 10)), (6, (12, 13), (12, 12, 13))):
            chk.add(boundary_zone_closed_form, real_t=rt, dim=2, width=w, shape=sh2, field_type="scalar")
            chk.add(boundary_zone_closed_form, real_t=rt, dim=3, width=w, shape=sh3, field_type="scalar" if w != 3 else "vector")
        orders = (1, 2) if chk.quick else (1, 2, 3, 4)
        for order in orders:
            for ftype in ("multiplicative", "convolution"):
                chk.add(filter_basic, real_t=rt, order=order, ftype=ftype, field_type="scalar")
                chk.add(filter_basic, real_t=rt, order=order, ftype=ftype, field_type="vector")
                chk.add(filter_fourier_symbol, real_t=rt, order=order, ftype=ftype)
    if chk.quick:
        for case in ("at_edges", "range_and_symmetry", "monotone"):
            chk.add(char_function, real_t="float32", dim=2, blend=0.1, case=case)
        chk.add(brinkmann, real_t="float32", variant="field", dim=3, field_type="vector")
        chk.add(boundary_zone, real_t="float32", dim=3, width=2, shape=(5, 6, 7), field_type="vector")
        chk.add(filter_fourier_symbol, real_t="float32", order=1, ftype="convolution")
    chk.bounds = ["boundary zone: closed form (edge value x quarter-sine ramp) on non-cubic grids down to n = 2*width; grids whose front and back zones overlap (n < 2*width) are outside the claim: the zone's inner edge is not defined there", "Brinkmann: out-of-place and in-place (output = field buffer / = target buffer) calls; per-cell claims on 2^d grids, penalty >= 0, indicator >= 0, all field/target values", "characteristic function: blend widths 0.1 and 2*dx(1/16); phi symbolic per case",
                  f"boundary zone: widths {list(widths)} on (2w+1)x(2w+2) (x..) grids, scalar and vector", f"filters: orders {list(orders)}, both types, scalar/vector; (2p+3)^3 grids; Fourier modes: cos(theta_a) in [-1,1] and 8 seeds symbolic"]
    chk.outside = ["rounding", "filter behaviour within p+1 cells of the boundary", "zone widths with overlapping zones (n < 2w)"]
    chk.assumptions = ["sin: one real variable per application with |sin|<=1, sin t<=t (t>=0), reflections about pi/2 via sin(pi-t)=sin t, sin(t+pi)=-sin t, sign on [0,pi], oddness and 1-Lipschitz instances for pairs of applications",
                       "tolerance 1e-12 where the kernel's float constants (pi/blend_width, 1/pi) meet the symbolic pi", "indicator >= 0 (the statement's [0,1])"]
    chk.run()
    chk.finish()


if __name__ == "__main__":
    main()
