#!/usr/bin/env python
"""C16 - the recommended time step is stable and keeps diffusion monotone.

Symbolic execution of compute_advection_diffusion_stable_timestep and of the three simulators'
compute_stable_timestep on symbolic velocity fields (path forking on the real `min`), plus the
maximum principle of the real diffusion time-step kernel for 0 <= nu dt/dx^2 <= 1/(2 d).
"""
import os
import sys

sys.path.insert(0, os.path.dirname(os.path.dirname(os.path.abspath(__file__))))
import numpy as np  # noqa: E402

from checks.common import Check, explore, scenario, sopht_modules  # noqa: E402


def _amax_abs_sum(u):
    """max over cells of sum_a |u_a| written independently (polymorphic)"""
    nd = u.shape[0]
    cells = []
    for idx in np.ndindex(*u.shape[1:]):
        s = 0.0
        for a in range(nd):
            s = s + abs(u[(a, *idx)])
        cells.append(s)
    return cells


@scenario
def stable_timestep_function(ctx, dim, shape, precision):
    sopht_modules()
    import sopht.simulator.flow.passive_transport_flow_simulators as mod

    shape = tuple(shape)
    real_t = np.float32 if precision == "float32" else np.float64
    eps = float(np.finfo(real_t).eps)
    u = ctx.array("u", (dim, *shape))
    buf = ctx.array("buf", shape)
    dx = ctx.scalar("dx", positive=True)
    cfl = ctx.scalar("cfl", positive=True)
    nu = ctx.scalar("nu", nonneg=True)
    if not ctx.sym:
        u = u.astype(real_t)
        buf = buf.astype(real_t)

    def run():
        return mod.compute_advection_diffusion_stable_timestep(velocity_field=u, velocity_magnitude_field=buf, grid_dim=dim, dx=dx, cfl=cfl, kinematic_viscosity=nu, real_t=real_t)

    rho = 1e3 * eps  # "beyond rounding": relative slack of the statement
    explore(ctx, lambda: _claims(ctx, run, u, dx, cfl, nu, dim, rho))


def _claims(ctx, run, u, dx, cfl, nu, dim, rho):
    dt = run()
    ctx.le("dt_positive", 0.0, dt)
    if ctx.sym:
        ctx.claim("dt_strictly_positive", dt > 0)
    else:
        ctx.claim("dt_strictly_positive", dt > 0 and np.isfinite(dt))
    # finite: no division whose denominator can vanish on this path (exact reals have no inf; the replay tests isfinite)
    if ctx.sym:
        from symsopht import sym as S

        dens = [n.args[0] for n in S.topo([S.lift(dt)]) if n.op == "inv"]
        ctx.claim("dt_finite(no_vanishing_denominator)", S.And(*[S.Not(S._cmp("eq", d, S.ZERO)) for d in dens]) if dens else True)
    else:
        ctx.claim("dt_finite(no_vanishing_denominator)", bool(np.isfinite(dt)))
    for i, s in enumerate(_amax_abs_sum(u)):
        ctx.le(f"advective_limit[cell{i}]", dt * s, cfl * dx * (1 + rho))
    ctx.le("diffusive_limit", nu * dt, (0.9 / (2 * dim)) * dx * dx * (1 + rho))
    return dt


@scenario
def simulator_timestep_wiring(ctx, sim_kind, shape):
    """compute_stable_timestep(prefac) = prefac * function(velocity_field of the simulator, its dx/cfl/nu)"""
    _, _, sps, _ = sopht_modules()
    import sopht.simulator.flow.passive_transport_flow_simulators as mod

    shape = tuple(shape)
    dim = len(shape)
    if sim_kind == "passive":
        sim = sps.PassiveTransportFlowSimulator(kinematic_viscosity=0.1, grid_dim=dim, grid_size=shape, x_range=1.0, real_t=ctx.real_t, num_threads=1)
    elif sim_kind == "ns2d":
        sim = sps.UnboundedNavierStokesFlowSimulator2D(kinematic_viscosity=0.1, grid_size=shape, x_range=1.0, real_t=ctx.real_t, num_threads=1)
    else:
        sim = sps.UnboundedNavierStokesFlowSimulator3D(kinematic_viscosity=0.1, grid_size=shape, x_range=1.0, real_t=ctx.real_t, num_threads=1, poisson_solver_type="fast_diagonalisation")
    u = ctx.array("u", (dim, *shape))
    pre = ctx.scalar("prefac", lo=0.0, hi=1.0)
    nu = ctx.scalar("nu", positive=True)
    cfl = ctx.scalar("cfl", positive=True)
    sim.kinematic_viscosity = nu
    sim.cfl = cfl
    if ctx.sym:
        sim.velocity_field = u
        sim.buffer_scalar_field = ctx.array("buf", shape)
    else:
        sim.velocity_field[...] = u
    state_name = "primary_field" if sim_kind == "passive" else "vorticity_field"
    st = ctx.array("state", getattr(sim, state_name).shape)
    if ctx.sym:
        setattr(sim, state_name, st)
    else:
        getattr(sim, state_name)[...] = st
    st0, u_before = st.copy(), u.copy()

    # (the whole scenario is re-run per path by the driver's exploration: every path starts from a freshly built simulator)
    def reference(vel, nu_, cfl_, tag):
        return mod.compute_advection_diffusion_stable_timestep(velocity_field=vel.copy(), velocity_magnitude_field=(ctx.array("buf2" + tag, shape) if ctx.sym else np.zeros(shape, dtype=ctx.real_t)),
                                                               grid_dim=dim, dx=sim.dx, cfl=cfl_, kinematic_viscosity=nu_, real_t=sim.real_t)

    a = sim.compute_stable_timestep(dt_prefac=pre)
    ctx.eq("dt(prefac)=prefac*dt(1)", a, pre * reference(u, nu, cfl, ""))
    # asking for the time step is a query: the flow state is not touched (only the scratch buffer is used)
    ctx.same_array("velocity_untouched_by_the_query", sim.velocity_field, u_before)
    ctx.same_array("state_untouched_by_the_query", getattr(sim, state_name), st0)
    # history: the query always answers for the velocity field / viscosity / CFL number the simulator holds NOW, also when
    # they changed since the previous query without a time step in between
    u2 = ctx.array("u_later", (dim, *shape))
    sim.velocity_field[...] = u2
    a2 = sim.compute_stable_timestep(dt_prefac=pre)
    ctx.eq("second_query_answers_for_the_current_velocity", a2, pre * reference(u2, nu, cfl, "b"))
    nu2, cfl2 = ctx.scalar("nu_later", positive=True), ctx.scalar("cfl_later", positive=True)
    sim.kinematic_viscosity, sim.cfl = nu2, cfl2
    a3 = sim.compute_stable_timestep(dt_prefac=pre)
    ctx.eq("third_query_answers_for_the_current_viscosity_and_cfl", a3, pre * reference(u2, nu2, cfl2, "c"))


# the three queries fork on every `min`/`max` of the limit computation; bound the exploration (unchanged tree: 6 paths)
simulator_timestep_wiring.max_paths = 16


@scenario
def diffusion_maximum_principle(ctx, dim, shape, field_type):
    _, spne, _, _ = sopht_modules()
    shape = tuple(shape)
    p = ctx.scalar("nu_dt_by_dx2", lo=0.0)
    ctx.assume(p * (2 * dim) <= 1)
    if dim == 2:
        k = spne.gen_diffusion_timestep_euler_forward_pyst_kernel_2d(real_t=ctx.real_t, num_threads=False)
    else:
        k = spne.gen_diffusion_timestep_euler_forward_pyst_kernel_3d(real_t=ctx.real_t, num_threads=False, field_type=field_type)
    fl = ctx.array("fl", shape)
    if field_type == "vector":
        f = ctx.array("f", (3, *shape))
        f0 = f.copy()
        k(vector_field=f, diffusion_flux=fl, nu_dt_by_dx2=ctx.cast(p))
        comps = [(f[i], f0[i]) for i in range(3)]
    else:
        f = ctx.array("f", shape)
        f0 = f.copy()
        k(field=f, diffusion_flux=fl, nu_dt_by_dx2=ctx.cast(p))
        comps = [(f, f0)]
    M, m = ctx.scalar("M"), ctx.scalar("m")
    for ci, (fa, fb) in enumerate(comps):
        for idx in np.ndindex(*shape):
            interior = all(1 <= i < n - 1 for i, n in zip(idx, shape))
            name = f"comp{ci}[{','.join(map(str, idx))}]"
            if not interior:
                ctx.same(f"ring_unchanged:{name}", fa[idx], fb[idx])
                continue
            nb = [fb[idx]]
            for ax in range(dim):
                for s in (-1, 1):
                    j = list(idx)
                    j[ax] += s
                    nb.append(fb[tuple(j)])
            if ctx.sym:
                from symsopht import sym as S

                hy = S.And(*[S.And(v <= M, v >= m) for v in nb])
                ctx.claim(f"no_new_extrema:{name}", S.Implies(hy, S.And(fa[idx] <= M, fa[idx] >= m)))
            else:
                tol = ctx.tol * max(1.0, max(abs(float(v)) for v in nb))
                ctx.claim(f"no_new_extrema:{name}", min(nb) - tol <= fa[idx] <= max(nb) + tol)


def main():
    chk = Check("C16", "stable time step: inequalities over all velocity fields (symbolic execution with path forking on min) and maximum principle of the diffusion step (z3)",
                functions=["compute_advection_diffusion_stable_timestep", "PassiveTransportFlowSimulator.compute_stable_timestep", "UnboundedNavierStokesFlowSimulator2D/3D.compute_stable_timestep",
                           "gen_diffusion_timestep_euler_forward_pyst_kernel_2d/3d"],
                files=["sopht/simulator/flow/passive_transport_flow_simulators.py", "sopht/simulator/flow/navier_stokes_flow_simulators.py",
                       "sopht/numeric/eulerian_grid_ops/stencil_ops_2d/diffusion_timestep_2d.py", "sopht/numeric/eulerian_grid_ops/stencil_ops_3d/diffusion_timestep_3d.py"])
    chk.maybe_replay()
    sopht_modules()
    for prec in ("float64", "float32"):
        chk.add(stable_timestep_function, real_t=prec, dim=2, shape=(2, 3), precision=prec)
        chk.add(stable_timestep_function, real_t=prec, dim=3, shape=(2, 2, 2) if chk.quick else (2, 2, 3), precision=prec)
    for kind, sh in (("passive", (3, 4)), ("passive", (3, 3, 4)), ("ns2d", (3, 4)), ("ns3d", (3, 3, 4))):
        chk.add(simulator_timestep_wiring, sim_kind=kind, shape=sh)
    # simulators of another kind / shape queried earlier in the same process
    chk.add(simulator_timestep_wiring, sim_kind="ns3d", shape=(3, 3, 4), _earlier=[{"shape": (3, 4, 3)}, {"sim_kind": "passive"}])
    chk.add(simulator_timestep_wiring, sim_kind="ns2d", shape=(3, 4), _earlier=[{"shape": (4, 3)}, {"sim_kind": "passive", "_real_t": "float32"}])
    chk.add(diffusion_maximum_principle, dim=2, shape=(4, 5), field_type="scalar")
    chk.add(diffusion_maximum_principle, dim=3, shape=(3, 4, 3), field_type="scalar")
    chk.add(diffusion_maximum_principle, dim=3, shape=(3, 3, 4), field_type="vector")
    chk.bounds = ["velocity field cells symbolic on 2x3 / 2x2x2(3) grids (the max is taken over the cells: every cell is a separate inequality)", "nu, cfl, dx > 0 symbolic; prefactor in [0,1]",
                  "both precisions (enter through eps = finfo(real_t).eps only)", "maximum principle: all cells of 4x5 / 3x4x3 grids, p in [0, 1/(2d)]"]
    chk.outside = ["rounding inside the function (exact reals; the statement's 'beyond rounding' slack is 1e3*eps relative)", "larger grids (the function is a max over cells)"]
    chk.assumptions = ["exact real arithmetic", "nu >= 0, cfl > 0, dx > 0"]
    chk.run()
    chk.finish()


if __name__ == "__main__":
    main()
