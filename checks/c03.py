#!/usr/bin/env python
"""C03 - the unbounded Poisson solve equals the free-space Green's-function convolution.

The real solver object is constructed concretely (its Fourier Green's table is what real FFTW made
of the real distance field); solve() then runs symbolically with the two FFTW plans replaced by the
exact-DFT stub, all three work buffers and the solution array holding arbitrary solver variables.
The result is an exact affine form in the right-hand side; a QF_LRA query per cell bounds its
distance to the analytic aperiodic convolution for all right-hand sides in [-1,1]^n.
"""
import math
import os
import sys

sys.path.insert(0, os.path.dirname(os.path.dirname(os.path.abspath(__file__))))
import numpy as np  # noqa: E402

from checks.common import Check, Claim, bound_vars, close_array, scenario, sopht_modules  # noqa: E402

TOL = {"float64": 1e-14, "float32": 2e-5}


def greens_reference(shape, dx, dim):
    """K[i][j] = G(|i-j| dx) * dx^d with the documented self-cell regularisation (plain Python floats)"""
    cells = list(np.ndindex(*shape))
    K = {}
    for ci in cells:
        for cj in cells:
            r2 = sum((a - b) ** 2 for a, b in zip(ci, cj))
            if dim == 2:
                g = -(2 * math.log(dx / math.sqrt(math.pi)) - 1) / (4 * math.pi) if r2 == 0 else -math.log(dx * math.sqrt(r2)) / (2 * math.pi)
            else:
                g = 1 / (4 * math.pi * dx) if r2 == 0 else 1 / (4 * math.pi * dx * math.sqrt(r2))
            K[(ci, cj)] = g * dx**dim
    return cells, K


def make_solver(ctx, dim, shape, x_range):
    _, spne, _, _ = sopht_modules()
    if dim == 2:
        return spne.UnboundedPoissonSolverPYFFTW2D(grid_size_y=shape[0], grid_size_x=shape[1], x_range=x_range, real_t=ctx.real_t, num_threads=1)
    return spne.UnboundedPoissonSolverPYFFTW3D(grid_size_z=shape[0], grid_size_y=shape[1], grid_size_x=shape[2], x_range=x_range, real_t=ctx.real_t, num_threads=1)


BUFFERS = ("domain_doubled_buffer", "domain_doubled_fourier_buffer", "convolution_buffer")


def symbolise_solver(ctx, solver, tag="ps"):
    """sym: work buffers -> arbitrary symbolic content, Green's table -> exact constants, FFTW plans -> exact-DFT stub.
    num: buffers filled from the model (arbitrary history), real FFTW kept."""
    from symsopht import graph, stubs_fft

    def policy(path, arr):
        name = path.split(".")[-1]
        if name in BUFFERS:
            return ("fresh", f"{tag}_{name}")
        if name.startswith("fourier_greens_function_times_dx"):
            return ("const", None)
        return ("keep", None)

    if ctx.sym:
        graph.symbolise(solver, policy, name="solver")
        solver.rfft = stubs_fft.RFFTStub()
        solver.irfft = stubs_fft.IRFFTStub()
    else:
        graph.fill_numeric(solver, policy, lambda n, d: ctx._num(n, d), name="solver")


@scenario
def poisson_solve(ctx, dim, shape, x_range, vector, layout="c"):
    shape = tuple(shape)
    rt = "float32" if ctx.real_t == np.float32 else "float64"
    solver = make_solver(ctx, dim, shape, x_range)
    dx = float(solver.dx)
    if ctx.sym:
        # contract validation of the FFT stub on this very shape (numeric, against real pyfftw)
        from symsopht import stubs_fft

        e1, e2 = stubs_fft.validate_against_pyfftw(tuple(2 * n for n in shape), ctx.real_t)
        lim = 1e-10 if ctx.real_t == np.float64 else 1e-3
        ok = e1 < lim and e2 < lim
        ctx.claims.append(Claim("fft_stub_matches_pyfftw_on_this_shape", "unsat" if ok else "sat", {}))
        if not ok:
            raise RuntimeError(f"FFT stub disagrees with pyfftw: {e1} {e2}")
    symbolise_solver(ctx, solver)
    fs = (3, *shape) if vector else shape
    from checks.c11 import _laid_out

    f = ctx.array("rhs", fs)
    u = _laid_out(ctx, "solution_prior", fs, layout)  # the caller's output array may be any ndarray view
    bound_vars(ctx, f)
    f0 = f.copy()
    if vector:
        solver.vector_field_solve(solution_vector_field=u, rhs_vector_field=f)
    else:
        solver.solve(solution_field=u, rhs_field=f)
    ctx.same_array("rhs_untouched", f, f0)
    # history independence, two-copy form: a second solver object whose buffers hold different arbitrary contents
    solver_b = make_solver(ctx, dim, shape, x_range)
    symbolise_solver(ctx, solver_b, tag="psB")
    ub = ctx.array("solution_prior_B", fs)
    if vector:
        solver_b.vector_field_solve(solution_vector_field=ub, rhs_vector_field=f)
    else:
        solver_b.solve(solution_field=ub, rhs_field=f)
    ctx.eq_array("independent_of_buffers_and_earlier_solves", u, ub)
    cells, K = greens_reference(shape, dx, dim)
    comps = [(u[i], f0[i], i) for i in range(3)] if vector else [(u, f0, 0)]
    for uc, fc, ci in comps:
        ref = fc * 0
        for c in cells:
            acc = 0.0
            for cj in cells:
                acc = acc + K[(c, cj)] * fc[cj]
            ref[c] = acc
        close_array(ctx, f"equals_free_space_greens_convolution:comp{ci}", uc, ref, TOL[rt])
    if ctx.sym and not vector:
        # reported (not deciding): asymmetry of the implemented kernel matrix
        from symsopht import sym as S

        coef = {}
        for c in cells:
            d, c0 = S.lift(u[c]).lin()
            for a, v in d.items():
                coef[(c, a.args[0])] = float(v)
        asym = 0.0
        for c in cells:
            for cj in cells:
                a = coef.get((c, "rhs[" + ",".join(map(str, cj)) + "]"), 0.0)
                b = coef.get((cj, "rhs[" + ",".join(map(str, c)) + "]"), 0.0)
                asym = max(asym, abs(a - b))
        ctx.worst_case["kernel_asymmetry_max|K_ij-K_ji|"] = asym


@scenario
def second_solve_independent_of_first(ctx, dim, shape):
    """history: two solves on the same object; the second result is the solve of the second rhs alone"""
    shape = tuple(shape)
    solver = make_solver(ctx, dim, shape, 1.0)
    symbolise_solver(ctx, solver)
    f1, f2 = ctx.array("rhs_first", shape), ctx.array("rhs", shape)
    u1, u2 = ctx.array("sol1_prior", shape), ctx.array("sol2_prior", shape)
    solver.solve(solution_field=u1, rhs_field=f1)
    solver.solve(solution_field=u2, rhs_field=f2)
    fresh_solver = make_solver(ctx, dim, shape, 1.0)
    symbolise_solver(ctx, fresh_solver, tag="ps2")
    u3 = ctx.array("sol3_prior", shape)
    fresh_solver.solve(solution_field=u3, rhs_field=f2)
    ctx.eq_array("second_solve_equals_solve_on_a_fresh_object", u2, u3)


def main():
    chk = Check("C03", "unbounded Poisson solve vs analytic free-space Green's convolution for all right-hand sides in a box (symbolic execution of solve() with an exact-DFT stub for FFTW, QF_LRA tolerance queries)",
                functions=["UnboundedPoissonSolverPYFFTW2D.solve", "UnboundedPoissonSolverPYFFTW3D.solve / vector_field_solve", "gen_set_fixed_val / gen_elementwise_copy / gen_elementwise_complex_product kernels (backend IR)"],
                files=["sopht/numeric/eulerian_grid_ops/poisson_solver_2d/UnboundedPoissonSolverPYFFTW2D.py", "sopht/numeric/eulerian_grid_ops/poisson_solver_3d/UnboundedPoissonSolverPYFFTW3D.py",
                       "sopht/numeric/eulerian_grid_ops/poisson_solver_2d/FFTPyFFTW2D.py", "sopht/numeric/eulerian_grid_ops/poisson_solver_3d/FFTPyFFTW3D.py",
                       "sopht/numeric/eulerian_grid_ops/stencil_ops_2d/elementwise_ops_2d.py", "sopht/numeric/eulerian_grid_ops/stencil_ops_3d/elementwise_ops_3d.py"])
    chk.maybe_replay()
    sopht_modules()
    if chk.quick:
        s2 = [(1, 1), (2, 3), (3, 2), (4, 4), (3, 5)]
        s3 = [(2, 3, 2), (1, 1, 4), (3, 2, 3)]
        xr = [1.0]
        rts = ["float64"]
    else:
        s2 = [(a, b) for a in range(1, 5) for b in range(1, 5)] + [(5, 7), (6, 4), (3, 8), (6, 7)]
        s3 = [(2, 3, 4), (3, 3, 3), (4, 2, 5), (1, 1, 6), (2, 2, 2), (4, 5, 6)]
        xr = [1.0, 0.37, 5.0]
        rts = ["float64", "float32"]
    for rt in rts:
        for x in xr:
            for sh in s2:
                chk.add(poisson_solve, real_t=rt, dim=2, shape=sh, x_range=x, vector=False)
            for sh in s3:
                if not chk.quick and sh == (4, 5, 6) and (x != 1.0 or rt != "float64"):
                    continue
                chk.add(poisson_solve, real_t=rt, dim=3, shape=sh, x_range=x, vector=False)
        chk.add(poisson_solve, real_t=rt, dim=3, shape=(2, 3, 2), x_range=1.0, vector=True)
        chk.add(second_solve_independent_of_first, real_t=rt, dim=2, shape=(3, 4))
        chk.add(second_solve_independent_of_first, real_t=rt, dim=3, shape=(2, 2, 3))
    for lay in ("interior", "fortran", "strided"):
        chk.add(poisson_solve, real_t="float64", dim=2, shape=(2, 3), x_range=1.0, vector=False, layout=lay)
        chk.add(poisson_solve, real_t="float64", dim=3, shape=(2, 3, 2), x_range=1.0, vector=(lay == "interior"), layout=lay)
    # earlier solver objects in the same process (different domain length / shape / precision) must not influence a later one
    for rt, other in (("float64", "float32"), ("float32", "float64")) if not chk.quick else (("float64", "float32"),):
        chk.add(poisson_solve, real_t=rt, dim=2, shape=(2, 3), x_range=2.5, vector=False, _earlier=[{"x_range": 1.0}])
        chk.add(poisson_solve, real_t=rt, dim=3, shape=(2, 3, 2), x_range=0.37, vector=False, _earlier=[{"x_range": 1.0}])
        chk.add(poisson_solve, real_t=rt, dim=2, shape=(3, 2), x_range=1.0, vector=False, _earlier=[{"shape": (2, 3)}, {"_real_t": other, "x_range": 3.0}])
        chk.add(poisson_solve, real_t=rt, dim=3, shape=(2, 3, 2), x_range=1.0, vector=True, _earlier=[{"shape": (3, 2, 2), "vector": False}, {"shape": (2, 2, 3), "_real_t": other, "vector": False}])
    if chk.quick:
        chk.add(poisson_solve, real_t="float32", dim=2, shape=(3, 2), x_range=1.0, vector=False)
        chk.add(poisson_solve, real_t="float32", dim=3, shape=(2, 3, 2), x_range=1.0, vector=True)
    chk.bounds = [f"2D shapes {s2}", f"3D shapes {s3}", f"x_range in {xr}; precisions {rts}", "output array layouts: C order, interior of a ghost-padded allocation, Fortran order, strided view", "later-object instances: one or two solver objects with a different x_range / transposed shape / other precision are constructed and used first in the same process", "rhs cells symbolic in [-1,1]; all three work buffers and the solution array arbitrary symbolic (any earlier history)",
                  f"tolerances (absolute): {TOL}"]
    chk.outside = ["larger shapes (cost of the exact DFT grows as (2n)^d n^d)", "FFTW itself (replaced by its mathematical contract, validated numerically on every shape)", "rounding inside solve()"]
    chk.assumptions = ["pyfftw plan = unnormalised r2c DFT / normalised c2r inverse reading the half spectrum (validated against real pyfftw each run)", "twiddle factors as 40-digit rationals (error absorbed in the tolerance)",
                       "Green's table = the concrete complex numbers real FFTW produced at construction, read as exact rationals"]
    chk.run()
    chk.finish()


if __name__ == "__main__":
    main()
