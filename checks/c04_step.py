"""C04(c): the real simulator step conserves the grid sum of vorticity / transported scalar for
compactly supported vorticity and forcing and an arbitrary velocity field."""
import os
import sys

sys.path.insert(0, os.path.dirname(os.path.dirname(os.path.abspath(__file__))))
import numpy as np  # noqa: E402

from checks.common import scenario  # noqa: E402
from checks.flowstep import run_step  # noqa: E402


def _sum(a):
    acc = 0.0
    for v in np.asarray(a).reshape(-1):
        acc = acc + v
    return acc


def _compact(ctx, name, shape, margin, nd):
    """leading axes (components) full, trailing nd axes zero within margin of the faces"""
    if any(n - 2 * margin < 1 for n in shape[-nd:]):
        raise RuntimeError(f"vacuous instance: no cell of a {tuple(shape[-nd:])} grid is {margin} cells away from every face")
    a = ctx.zeros(shape)
    inner = tuple(slice(None) for _ in range(len(shape) - nd)) + tuple(slice(margin, n - margin) for n in shape[-nd:])
    ishape = tuple(shape[: len(shape) - nd]) + tuple(n - 2 * margin for n in shape[-nd:])
    a[inner] = ctx.array(name, ishape)
    return a


@scenario
def step_conserves_sum(ctx, cfg, margin):
    dim = len(cfg["shape"])

    def init(sim):
        if cfg["kind"] == "passive":
            sim.primary_field[...] = _compact(ctx, "wc", sim.primary_field.shape, margin, dim)
        else:
            sim.vorticity_field[...] = _compact(ctx, "wc", sim.vorticity_field.shape, margin, dim)
            if cfg.get("forcing"):
                sim.eul_grid_forcing_field[...] = _compact(ctx, "fc", sim.eul_grid_forcing_field.shape, margin, dim)

    r = run_step(ctx, cfg, cuts=False, stub_poisson=True, init=init)
    w0, w1 = r["w0"], r["w1"]
    if w0.ndim == dim:
        ctx.eq("grid_sum_conserved", _sum(w1), _sum(w0))
    else:
        for i in range(w0.shape[0]):
            ctx.eq(f"grid_sum_conserved[{i}]", _sum(w1[i]), _sum(w0[i]))


# heavy scenarios: a data-dependent branch introduced into the step forks them; keep the exploration bound small
step_conserves_sum.max_paths = 4


def schedule(chk):
    cfgs = [
        (dict(kind="ns2d", shape=(15, 16), forcing=True, free_stream=True, width=2), 6),
        (dict(kind="ns2d", shape=(12, 13), forcing=False, free_stream=False, width=0), 5),
        (dict(kind="passive", shape=(12, 13), field_type="scalar"), 5),
        (dict(kind="ns3d", shape=(12, 12, 13), forcing=True, free_stream=False, filter=("multiplicative", 1), solver="greens_function_convolution", width=1), 5),
        (dict(kind="ns3d", shape=(10, 10, 11), forcing=False, free_stream=True, filter=None, solver="fast_diagonalisation", width=2), 4),
    ]
    if not chk.quick:
        cfgs += [
            (dict(kind="ns3d", shape=(14, 14, 15), forcing=True, free_stream=True, filter=("convolution", 2), solver="greens_function_convolution", width=1), 6),
            (dict(kind="ns3d", shape=(12, 12, 13), forcing=True, free_stream=True, filter=("multiplicative", 2), solver="greens_function_convolution", width=0), 5),
            (dict(kind="passive", shape=(11, 11, 12), field_type="scalar"), 4),
            (dict(kind="passive", shape=(11, 11, 12), field_type="vector"), 4),
            (dict(kind="ns2d", shape=(13, 12), forcing=True, free_stream=False, width=1), 5),
        ]
    for cfg, margin in cfgs:
        # reach of one step from the boundary: forcing curl 1 + transport (ENO3 2 | curl 1) + diffusion 1 + filter order + zone width
        reach = (1 if cfg.get("forcing") else 0) + (2 if cfg["kind"] in ("ns2d", "passive") else 1) + 1 + (cfg["filter"][1] if cfg.get("filter") else 0) + cfg.get("width", 0)
        assert margin >= reach, (cfg, margin, reach)
        chk.add(step_conserves_sum, cfg=cfg, margin=margin)
    chk.bounds.append("(c) real time_step on 12x13 / 10x10x11 (thorough 12x12x13) grids, vorticity/forcing zero within the stated margin of the faces, velocity arbitrary everywhere; Poisson stage cut out (does not touch vorticity)")
