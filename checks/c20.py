#!/usr/bin/env python
"""C20 - time-stepping kernels realise their nominal integration scheme.

Symbolic execution of the real time-step closures (their pystencils kernels interpreted from the
backend IR) against a polynomial in the library's *own* flux callable, composed by the harness.
"""
import os
import sys

sys.path.insert(0, os.path.dirname(os.path.dirname(os.path.abspath(__file__))))
import numpy as np  # noqa: E402

from checks.common import Check, scenario, sopht_modules  # noqa: E402


def _copy(a):
    return a.copy()


def _field(ctx, name, shape, layout):
    """the array the kernel updates, with the caller's memory layout (C order, interior of a padded allocation, component-/z-last)"""
    from checks.c11 import _laid_out

    return _laid_out(ctx, name, tuple(shape), layout)


@scenario
def ssprk3_stretching(ctx, shape, layout="c"):
    ctx.prefer = "nlsat"
    _, spne, _, _ = sopht_modules()
    shape = tuple(shape)
    vs = (3, *shape)
    mid = ctx.array("mid", vs)
    step = spne.gen_vorticity_stretching_timestep_ssprk3_pyst_kernel_3d(real_t=ctx.real_t, midstep_buffer_vector_field=mid, num_threads=False)
    flux = spne.gen_vorticity_stretching_flux_pyst_kernel_3d(real_t=ctx.real_t, num_threads=False)
    w = _field(ctx, "w", vs, layout)
    u = ctx.array("u", vs)
    fb = ctx.array("fluxbuf", vs)
    p = ctx.scalar("dt_by_2_dx")
    w0, u0 = _copy(w), _copy(u)
    step(vorticity_field=w, velocity_field=u, vorticity_stretching_flux_field=fb, dt_by_2_dx=ctx.cast(p))

    def A(x):
        buf = ctx.array("oraclebuf", vs)  # prior content arbitrary: the flux kernel must overwrite it
        flux(vorticity_stretching_flux_field=buf, vorticity_field=x, velocity_field=u0, prefactor=ctx.cast(p))
        return buf

    a1 = A(w0)
    a2 = A(a1)
    a3 = A(a2)
    ref = w0 + a1 + a2 / 2 + a3 / 6
    ctx.eq_array("ssprk3_equals_I+A+A2/2+A3/6", w, ref)
    ctx.same_array("velocity_untouched", u, u0)


@scenario
def euler_stretching(ctx, shape, layout="c"):
    _, spne, _, _ = sopht_modules()
    vs = (3, *tuple(shape))
    step = spne.gen_vorticity_stretching_timestep_euler_forward_pyst_kernel_3d(real_t=ctx.real_t, num_threads=False)
    flux = spne.gen_vorticity_stretching_flux_pyst_kernel_3d(real_t=ctx.real_t, num_threads=False)
    w, u, fb = _field(ctx, "w", vs, layout), ctx.array("u", vs), ctx.array("fluxbuf", vs)
    p = ctx.scalar("dt_by_2_dx")
    w0, u0 = _copy(w), _copy(u)
    step(vorticity_field=w, velocity_field=u, vorticity_stretching_flux_field=fb, dt_by_2_dx=ctx.cast(p))
    buf = ctx.array("oraclebuf", vs)
    flux(vorticity_stretching_flux_field=buf, vorticity_field=w0, velocity_field=u0, prefactor=ctx.cast(p))
    ctx.eq_array("euler_equals_field+flux", w, w0 + buf)
    ctx.same_array("velocity_untouched", u, u0)


@scenario
def euler_diffusion(ctx, dim, shape, field_type, layout="c"):
    _, spne, _, _ = sopht_modules()
    shape = tuple(shape)
    p = ctx.scalar("nu_dt_by_dx2")
    if dim == 2:
        step = spne.gen_diffusion_timestep_euler_forward_pyst_kernel_2d(real_t=ctx.real_t, num_threads=False)
        flux = spne.gen_diffusion_flux_pyst_kernel_2d(real_t=ctx.real_t, num_threads=False)
        f, fb = _field(ctx, "f", shape, layout), ctx.array("fluxbuf", shape)
        f0 = _copy(f)
        step(field=f, diffusion_flux=fb, nu_dt_by_dx2=ctx.cast(p))
        buf = ctx.array("oraclebuf", shape)
        flux(diffusion_flux=buf, field=f0, prefactor=ctx.cast(p))
        ctx.eq_array("euler_equals_field+flux", f, f0 + buf)
    elif field_type == "scalar":
        step = spne.gen_diffusion_timestep_euler_forward_pyst_kernel_3d(real_t=ctx.real_t, num_threads=False, field_type="scalar")
        flux = spne.gen_diffusion_flux_pyst_kernel_3d(real_t=ctx.real_t, num_threads=False, field_type="scalar")
        f, fb = _field(ctx, "f", shape, layout), ctx.array("fluxbuf", shape)
        f0 = _copy(f)
        step(field=f, diffusion_flux=fb, nu_dt_by_dx2=ctx.cast(p))
        buf = ctx.array("oraclebuf", shape)
        flux(diffusion_flux=buf, field=f0, prefactor=ctx.cast(p))
        ctx.eq_array("euler_equals_field+flux", f, f0 + buf)
    else:
        vs = (3, *shape)
        step = spne.gen_diffusion_timestep_euler_forward_pyst_kernel_3d(real_t=ctx.real_t, num_threads=False, field_type="vector")
        flux = spne.gen_diffusion_flux_pyst_kernel_3d(real_t=ctx.real_t, num_threads=False, field_type="vector")
        f, fb = _field(ctx, "f", vs, layout), ctx.array("fluxbuf", shape)
        f0 = _copy(f)
        step(vector_field=f, diffusion_flux=fb, nu_dt_by_dx2=ctx.cast(p))
        buf = ctx.array("oraclebuf", vs)
        flux(vector_field_diffusion_flux=buf, vector_field=f0, prefactor=ctx.cast(p))
        ctx.eq_array("euler_equals_field+flux", f, f0 + buf)


@scenario
def euler_advection(ctx, dim, shape, field_type, layout="c"):
    _, spne, _, _ = sopht_modules()
    shape = tuple(shape)
    p = ctx.scalar("dt_by_dx")
    if dim == 2:
        step = spne.gen_advection_timestep_euler_forward_conservative_eno3_pyst_kernel_2d(real_t=ctx.real_t, num_threads=False)
        flux = spne.gen_advection_flux_conservative_eno3_pyst_kernel_2d(real_t=ctx.real_t, num_threads=False)
        f, fb, u = _field(ctx, "f", shape, layout), ctx.array("fluxbuf", shape), ctx.array("u", (2, *shape))
        f0, u0 = _copy(f), _copy(u)
        step(field=f, advection_flux=fb, velocity=u, dt_by_dx=ctx.cast(p))
        buf = ctx.zeros(shape)  # the flux callable accumulates: oracle starts from the documented zero
        flux(advection_flux=buf, field=f0, velocity=u0, inv_dx=ctx.cast(p))
        # advection: field' = field - dt/dx * (flux difference); the library's flux callable returns inv_dx*(F_front - F_back)
        ctx.eq_array("euler_equals_field-dt*flux", f, f0 - buf)
        ctx.same_array("velocity_untouched", u, u0)
    else:
        flux = spne.gen_advection_flux_conservative_eno3_pyst_kernel_3d(real_t=ctx.real_t, num_threads=False)
        step = spne.gen_advection_timestep_euler_forward_conservative_eno3_pyst_kernel_3d(real_t=ctx.real_t, num_threads=False, field_type=field_type)
        fb, u = ctx.array("fluxbuf", shape), ctx.array("u", (3, *shape))
        u0 = _copy(u)
        if field_type == "scalar":
            f = _field(ctx, "f", shape, layout)
            f0 = _copy(f)
            step(field=f, advection_flux=fb, velocity=u, dt_by_dx=ctx.cast(p))
            comps = [(f, f0)]
        else:
            f = _field(ctx, "f", (3, *shape), layout)
            f0 = _copy(f)
            step(vector_field=f, advection_flux=fb, velocity=u, dt_by_dx=ctx.cast(p))
            comps = [(f[i], f0[i]) for i in range(3)]
        for i, (fi, f0i) in enumerate(comps):
            buf = ctx.zeros(shape)
            flux(advection_flux=buf, field=f0i, velocity=u0, inv_dx=ctx.cast(p))
            ctx.eq_array(f"euler_equals_field-dt*flux_comp{i}", fi, f0i - buf)
        ctx.same_array("velocity_untouched", u, u0)


@scenario
def repeated_calls_with_reused_buffer(ctx, which, shape):
    """history: the same generated kernel called twice with the SAME flux-buffer object whose content is arbitrary again at the
    second call (a scratch buffer shared with other operators, as in the simulators)"""
    _, spne, _, _ = sopht_modules()
    ctx.prefer = "nlsat"
    shape = tuple(shape)
    vs = (3, *shape)
    flux = spne.gen_vorticity_stretching_flux_pyst_kernel_3d(real_t=ctx.real_t, num_threads=False)
    if which == "ssprk3":
        mid = ctx.array("mid", vs)
        step = spne.gen_vorticity_stretching_timestep_ssprk3_pyst_kernel_3d(real_t=ctx.real_t, midstep_buffer_vector_field=mid, num_threads=False)
    elif which == "euler":
        step = spne.gen_vorticity_stretching_timestep_euler_forward_pyst_kernel_3d(real_t=ctx.real_t, num_threads=False)
    else:
        step = None
    w, u, fb = ctx.array("w", vs), ctx.array("u", vs), ctx.array("fluxbuf", vs)
    p = ctx.scalar("dt_by_2_dx")

    def A(x, uu):
        buf = ctx.array("oraclebuf", vs)
        flux(vorticity_stretching_flux_field=buf, vorticity_field=x, velocity_field=uu, prefactor=ctx.cast(p))
        return buf

    for call in range(2):
        if call == 1:
            # something else used the scratch buffer in between
            fb[...] = ctx.array("fluxbuf_dirty", vs)
            w[...] = ctx.array("w2", vs)
        w0, u0 = w.copy(), u.copy()
        if which == "flux":
            flux(vorticity_stretching_flux_field=fb, vorticity_field=w, velocity_field=u, prefactor=ctx.cast(p))
            ref_flux = ctx.array("oraclebuf2", vs)
            # independent closed form of the flux (ring zero)
            from ref import kernels_ref as R

            ctx.eq_array(f"call{call}:flux_equals_closed_form", fb, R.stretching_flux_3d(ref_flux, w0, u0, p))
            continue
        step(vorticity_field=w, velocity_field=u, vorticity_stretching_flux_field=fb, dt_by_2_dx=ctx.cast(p))
        a1 = A(w0, u0)
        if which == "euler":
            ref = w0 + a1
        else:
            a2 = A(a1, u0)
            a3 = A(a2, u0)
            ref = w0 + a1 + a2 / 2 + a3 / 6
        ctx.eq_array(f"call{call}:{which}_equals_scheme", w, ref)


def main():
    chk = Check(
        "C20",
        "time-step kernels vs polynomial in the library's own flux operator (bounded symbolic execution + z3)",
        functions=[
            "gen_vorticity_stretching_timestep_ssprk3_pyst_kernel_3d", "gen_vorticity_stretching_timestep_euler_forward_pyst_kernel_3d",
            "gen_vorticity_stretching_flux_pyst_kernel_3d", "gen_diffusion_timestep_euler_forward_pyst_kernel_2d/3d",
            "gen_advection_timestep_euler_forward_conservative_eno3_pyst_kernel_2d/3d", "gen_elementwise_sum/saxpby/set_fixed_val kernels",
        ],
        files=[
            "sopht/numeric/eulerian_grid_ops/stencil_ops_3d/vorticity_stretching_timestep_3d.py",
            "sopht/numeric/eulerian_grid_ops/stencil_ops_3d/vorticity_stretching_flux_3d.py",
            "sopht/numeric/eulerian_grid_ops/stencil_ops_2d/advection_timestep_2d.py",
            "sopht/numeric/eulerian_grid_ops/stencil_ops_3d/advection_timestep_3d.py",
            "sopht/numeric/eulerian_grid_ops/stencil_ops_2d/diffusion_timestep_2d.py",
            "sopht/numeric/eulerian_grid_ops/stencil_ops_3d/diffusion_timestep_3d.py",
        ],
    )
    chk.maybe_replay()
    sopht_modules()
    s3 = [(5, 5, 5), (5, 6, 7), (4, 3, 6)] if chk.quick else [(5, 5, 5), (5, 6, 7), (4, 3, 6), (7, 4, 5), (6, 7, 4), (3, 3, 3)]
    s2 = [(5, 6), (7, 5), (6, 6)] if chk.quick else [(5, 6), (7, 5), (6, 6), (3, 3), (3, 9), (9, 3), (8, 7)]
    sadv3 = [(5, 5, 6), (6, 5, 7)] if chk.quick else [(5, 5, 6), (6, 5, 7), (7, 6, 5), (5, 7, 5)]
    precisions = ["float64", "float32"]
    for rt in precisions:
        for sh in s3:
            chk.add(ssprk3_stretching, real_t=rt, shape=sh)
            chk.add(euler_stretching, real_t=rt, shape=sh)
            for ft in ("scalar", "vector"):
                chk.add(euler_diffusion, real_t=rt, dim=3, shape=sh, field_type=ft)
        for which in ("flux", "euler", "ssprk3"):
            chk.add(repeated_calls_with_reused_buffer, real_t=rt, which=which, shape=(4, 5, 5))
        for sh in sadv3:
            for ft in ("scalar", "vector"):
                chk.add(euler_advection, real_t=rt, dim=3, shape=sh, field_type=ft)
        for sh in s2:
            chk.add(euler_diffusion, real_t=rt, dim=2, shape=sh, field_type="scalar")
            chk.add(euler_advection, real_t=rt, dim=2, shape=(sh[0] + 2, sh[1] + 2), field_type="scalar")
    # memory layout of the updated field: interior window of a padded allocation, component-/z-last storage
    for lay in ("interior", "fortran"):
        for rt in precisions:
            chk.add(ssprk3_stretching, real_t=rt, shape=(4, 3, 5), layout=lay)
            chk.add(euler_stretching, real_t=rt, shape=(4, 3, 5), layout=lay)
        chk.add(euler_diffusion, real_t="float64", dim=3, shape=(4, 3, 5), field_type="vector", layout=lay)
        chk.add(euler_diffusion, real_t="float64", dim=2, shape=(4, 5), field_type="scalar", layout=lay)
        chk.add(euler_advection, real_t="float64", dim=3, shape=(5, 5, 6), field_type="vector", layout=lay)
        chk.add(euler_advection, real_t="float64", dim=2, shape=(6, 7), field_type="scalar", layout=lay)
    chk.bounds = [f"3D grids {s3} (stretching, diffusion), {sadv3} (ENO3 advection); 2D grids {s2} (+2 for advection)", f"precisions {precisions}",
                  "layouts of the updated field: C order, interior of a padded allocation, transposed (component-/z-last) storage", "all cell values, velocities, dt prefactor and all prior buffer contents are solver variables"]
    chk.outside = ["larger grids", "floating-point rounding (exact real arithmetic)", "code generator / C compiler (sampled by replay only)"]
    chk.assumptions = ["exact real arithmetic; literals read by the constant rule of DESIGN 4.2", "vectorised IR evaluation equals C loop order (hazard analysis per call, see C15)"]
    chk.run()
    chk.finish()


if __name__ == "__main__":
    main()
