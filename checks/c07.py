#!/usr/bin/env python
"""C07 - spreading is the adjoint of interpolation and conserves force (and torque).

Both transfer kernels (numba sources run as Python) on symbolic data.  Adjointness is shown for
ARBITRARY weights (solver variables) and enumerated index patterns (generic, two markers in one
cell, identical markers, overlapping windows, window touching the admissible edge, non-cubic grid):
it only holds if both directions use the same window and the same weights.  Force / torque
conservation uses the real weights of a marker with symbolic offset (C06 machinery).
"""
import os
import sys

sys.path.insert(0, os.path.dirname(os.path.dirname(os.path.abspath(__file__))))
import numpy as np  # noqa: E402

from checks.common import Check, merge_equal_radicands, scenario, sopht_modules  # noqa: E402
from checks.c06 import _modules  # noqa: E402


def _comm(dim):
    import importlib

    sopht_modules()
    importlib.import_module(f"sopht.numeric.immersed_boundary_ops.EulerianLagrangianGridCommunicator{dim}D")
    return sys.modules[f"sopht.numeric.immersed_boundary_ops.EulerianLagrangianGridCommunicator{dim}D"]


def _sum(a):
    acc = 0.0
    for v in np.asarray(a).reshape(-1):
        acc = acc + v
    return acc


PATTERNS = {
    2: {
        "generic": [(2, 3), (4, 2), (3, 4)],
        "same_cell": [(3, 3), (3, 3), (2, 2)],
        "overlapping": [(2, 2), (3, 2), (3, 3)],
        "edge": [(1, 1), (5, 4)],
    },
    3: {
        "generic": [(2, 3, 2), (3, 2, 3)],
        "same_cell": [(2, 2, 2), (2, 2, 2)],
        "overlapping": [(2, 2, 2), (3, 2, 3)],
        "edge": [(1, 1, 1), (5, 4, 3)],
    },
}


@scenario
def adjointness(ctx, dim, n_components, pattern, grid, dx=0.125, via="generators"):
    m = _comm(dim)
    grid = tuple(grid)
    if pattern.startswith("many:"):
        # many markers (size-gated code paths) spread over two overlapping windows
        nm = int(pattern.split(":")[1])
        idx_list = [tuple(2 + (m % 2) for _ in grid) for m in range(nm)]
    elif pattern == "corners":
        # (x, y, z) indices of the two extreme admissible windows of THIS grid (window = index-1 .. index+2 inside the grid)
        ext = tuple(reversed(grid))
        idx_list = [tuple(1 for _ in ext), tuple(n_ - 3 for n_ in ext)]
    else:
        idx_list = PATTERNS[dim][pattern]
    n = len(idx_list)
    # nearest index array is (dim, n) with component 0 = x index
    nearest = np.array(idx_list, dtype=int).T.copy()
    if via == "class":
        # the documented entry point: the communicator object (and whatever it shares with other communicators)
        comm = getattr(m, f"EulerianLagrangianGridCommunicator{dim}D")(dx=ctx.real_t(dx), eul_grid_coord_shift=ctx.real_t(dx / 2), num_lag_nodes=n, interp_kernel_width=2, real_t=ctx.real_t, n_components=n_components)
        interp, spread = comm.eulerian_to_lagrangian_grid_interpolation_kernel, comm.lagrangian_to_eulerian_grid_interpolation_kernel
    else:
        interp = getattr(m, f"generate_eulerian_to_lagrangian_grid_interpolation_kernel_{dim}d")(dx=dx, num_lag_nodes=n, interp_kernel_width=2, n_components=n_components)
        spread = getattr(m, f"generate_lagrangian_to_eulerian_grid_interpolation_kernel_{dim}d")(num_lag_nodes=n, interp_kernel_width=2, n_components=n_components)
    W = ctx.array("W", (4,) * dim + (n,))
    if n_components == 1:
        u, E0, F, out = ctx.array("u", grid), ctx.array("E0", grid), ctx.array("F", (n,)), ctx.array("lag_prior", (n,))
    else:
        u, E0, F, out = ctx.array("u", (dim, *grid)), ctx.array("E0", (dim, *grid)), ctx.array("F", (dim, n)), ctx.array("lag_prior", (dim, n))
    u0, F0, W0 = u.copy(), F.copy(), W.copy()
    interp(out, u, W, nearest)
    E = E0.copy()
    spread(E, F, W, nearest)
    lhs = _sum(F0 * out)
    rhs = _sum((E - E0) * u0) * (dx**dim)
    ctx.eq("sum_F.I(u)=dx^d*sum_S(F).u", lhs, rhs)
    # accumulation: a second call adds the same increment again
    E2 = E.copy()
    spread(E2, F, W, nearest)
    ctx.eq_array("second_call_adds_again", E2 - E, E - E0)
    ctx.same_array("u_untouched", u, u0)
    ctx.same_array("F_untouched", F, F0)
    ctx.same_array("weights_untouched", W, W0)
    # cells outside every marker window are untouched by spreading
    touched = np.zeros(grid, dtype=bool)
    for ix in idx_list:
        sl = tuple(slice(ix[dim - 1 - a] - 1, ix[dim - 1 - a] + 3) for a in range(dim))
        touched[sl] = True
    cells = [c for c in np.ndindex(*E.shape) if not touched[c[-dim:]]]
    ctx.eq_array("outside_windows_untouched", E, E0, cells=cells)


@scenario
def force_and_torque(ctx, dim, kernel, n_components, case):
    gen_support, gen_cos, gen_pesk, gen_interp = _modules(dim)
    m = _comm(dim)
    _, _, sps, _ = sopht_modules()
    grid = (7, 8) if dim == 2 else (7, 6, 8)
    sim = sps.PassiveTransportFlowSimulator(kinematic_viscosity=0.1, grid_dim=dim, grid_size=grid, x_range=1.0, real_t=ctx.real_t, num_threads=1)
    dx = sim.dx
    dxf = float(dx)
    shift = dx / 2
    cells = [(3,) * dim, (2,) * dim]
    n = len(cells)
    pos = ctx.zeros((dim, n))
    for k in range(n):
        for a in range(dim):
            if case[a] == "zero":
                fa = 0.0
            else:
                fa = ctx.scalar(f"f{a}_{k}", default=0.3 + 0.2 * k)
                ctx.assume(fa > 0)
                ctx.assume(fa < 1)
            pos[a, k] = float(shift) + (cells[k][a] + fa) * dxf
    support = ctx.array("support_prior", (dim,) + (4,) * dim + (n,))
    weights = ctx.array("weights_prior", (4,) * dim + (n,))
    if ctx.sym:
        nearest = ctx.array("nearest_prior", (dim, n))
    else:
        nearest = np.zeros((dim, n), dtype=int)
        pos = pos.astype(ctx.real_t)
    ctx.enable_pruning()
    gen_support(dx=dx, eul_grid_coord_shift=shift, num_lag_nodes=n, interp_kernel_width=2)(support, nearest, pos)
    (gen_pesk if kernel == "peskin" else gen_cos)(dx=dx, interp_kernel_width=2, real_t=ctx.real_t)(weights, support)
    ctx.disable_pruning()
    if ctx.sym:
        flat = list(np.asarray(weights).reshape(-1))
        weights = weights.copy()
        weights.reshape(-1)[...] = merge_equal_radicands(ctx, flat)
    ctx.prefer = "nlsat"
    nearest_int = nearest if not ctx.sym else np.array([[int(v) for v in row] for row in nearest], dtype=int)
    spread = getattr(m, f"generate_lagrangian_to_eulerian_grid_interpolation_kernel_{dim}d")(num_lag_nodes=n, interp_kernel_width=2, n_components=n_components)
    vol = dxf**dim
    if n_components == 1:
        F = ctx.array("F", (n,))
        E = ctx.zeros(grid)
        spread(E, F, weights, nearest_int)
        ctx.eq("grid_integral_of_spread_equals_total", _sum(E) * vol, _sum(F))
        return
    F = ctx.array("F", (dim, n))
    E = ctx.zeros((dim, *grid))
    spread(E, F, weights, nearest_int)
    for a in range(dim):
        ctx.eq(f"grid_integral_of_spread_force_equals_total_marker_force[{a}]", _sum(E[a]) * vol, _sum(F[a]))
    if kernel == "peskin":
        X = [ctx.const_array(sim.position_field[a]) for a in range(dim)]
        ref = [ctx.scalar(f"ref_point_{a}", default=0.1 * a) for a in range(dim)]
        if dim == 2:
            tg = _sum((X[0] - ref[0]) * E[1] - (X[1] - ref[1]) * E[0]) * vol
            tm = _sum((pos[0] - ref[0]) * F[1] - (pos[1] - ref[1]) * F[0])
            ctx.eq("torque_about_any_point_preserved", tg, tm)
        else:
            for a in range(3):
                b, c = (a + 1) % 3, (a + 2) % 3
                tg = _sum((X[b] - ref[b]) * E[c] - (X[c] - ref[c]) * E[b]) * vol
                tm = _sum((pos[b] - ref[b]) * F[c] - (pos[c] - ref[c]) * F[b])
                ctx.eq(f"torque_about_any_point_preserved[{a}]", tg, tm)


def main():
    chk = Check("C07", "adjointness of spreading and interpolation for arbitrary weights; force/torque conservation with the real weights (symbolic execution of the numba kernel sources, z3)",
                functions=["eulerian_to_lagrangian_grid_interpolation_kernel_2d/3d (scalar, vector)", "lagrangian_to_eulerian_grid_interpolation_kernel_2d/3d (scalar, vector)",
                           "local_eulerian_grid_support / peskin / cosine weight kernels"],
                files=["sopht/numeric/immersed_boundary_ops/EulerianLagrangianGridCommunicator2D.py", "sopht/numeric/immersed_boundary_ops/EulerianLagrangianGridCommunicator3D.py"])
    chk.maybe_replay()
    sopht_modules()
    rts = ["float64", "float32"]
    for rt in rts:
        for dim in (2, 3):
            grid = (7, 8) if dim == 2 else (6, 7, 8)
            for pattern in PATTERNS[dim]:
                for nc in (1, dim):
                    chk.add(adjointness, real_t=rt, dim=dim, n_components=nc, pattern=pattern, grid=grid)
            # non-cubic grids with every axis in turn the shortest; markers in the two extreme admissible corners
            for g2 in ([(7, 8), (8, 7)] if dim == 2 else [(6, 7, 8), (8, 7, 6), (7, 6, 8)]):
                for nc in (1, dim):
                    chk.add(adjointness, real_t=rt, dim=dim, n_components=nc, pattern="corners", grid=g2)
            # size-gated code paths: every distinct code variant of the two transfer kernels over marker counts 1..1100 (+ 2^k)
            from checks.common import size_variants

            if rt == "float64":
                m_ = _comm(dim)
                sizes = list(range(1, 1101)) + [2 ** k + d for k in range(11, 14) for d in (-1, 0, 1)]
                for nc in (1, dim):
                    vs = set(size_variants(lambda n_: getattr(m_, f"generate_eulerian_to_lagrangian_grid_interpolation_kernel_{dim}d")(dx=0.125, num_lag_nodes=n_, interp_kernel_width=2, n_components=nc), sizes))
                    vs |= set(size_variants(lambda n_: getattr(m_, f"generate_lagrangian_to_eulerian_grid_interpolation_kernel_{dim}d")(num_lag_nodes=n_, interp_kernel_width=2, n_components=nc), sizes))
                    chk.extra.setdefault("marker_counts_selecting_distinct_kernel_code", {})[f"{dim}d,{nc} comp"] = sorted(vs)
                    for nv in sorted(vs):
                        if nv > 3:
                            chk.add(adjointness, real_t=rt, dim=dim, n_components=nc, pattern=f"many:{nv}", grid=grid)
            # kernels generated / communicators constructed earlier in the same process (other spacing, component count, marker count)
            for nc in (1, dim):
                for via in ("generators", "class"):
                    chk.add(adjointness, real_t=rt, dim=dim, n_components=nc, pattern="overlapping", grid=grid, dx=0.25, via=via,
                            _earlier=[{"dx": 0.125}, {"n_components": (dim if nc == 1 else 1)}, {"pattern": "edge", "dx": 0.5}])
            for kernel in ("peskin", "cosine"):
                cases = [["interior"] * dim, ["zero"] + ["interior"] * (dim - 1)] if chk.quick else [["interior"] * dim, ["zero"] + ["interior"] * (dim - 1), ["interior"] * (dim - 1) + ["zero"], ["zero"] * dim]
                for case in cases:
                    chk.add(force_and_torque, real_t=rt, dim=dim, kernel=kernel, n_components=dim, case=case)
                chk.add(force_and_torque, real_t=rt, dim=dim, kernel=kernel, n_components=1, case=["interior"] * dim)
    chk.bounds = ["marker counts: both transfer generators are called for every count in 1..1100 and 2^k-1..2^k+1 (k=11..13); every distinct code variant of the returned kernels is decided", "later-object instances: kernels for another dx / component count / marker count are generated (directly and through the communicator class) and called first in the same process", "adjointness: weights, Eulerian field, Lagrangian field and prior Eulerian content all symbolic; <= 3 markers in the enumerated index patterns; grids (7,8)/(6,7,8); corner markers on (7,8),(8,7) / (6,7,8),(8,7,6),(7,6,8)",
                  "force/torque: 2 markers with symbolic offsets in (0,1) (thorough: also on cell centres), reference point symbolic"]
    chk.outside = ["more markers (the kernels loop over markers; contributions add)", "rounding", "markers within two cells of the boundary"]
    chk.assumptions = ["exact real arithmetic", "sqrt/cos axioms as in C06"]
    chk.run()
    chk.finish()


if __name__ == "__main__":
    main()
