#!/usr/bin/env python
"""C11 - the fast-diagonalisation solver solves the discrete Neumann Poisson problem.

The constructor runs concretely (LAPACK eig/inv results are data); solve() / vector_field_solve() run
symbolically on a right-hand side of solver variables with arbitrary prior buffer/solution contents.
The result is an exact affine form in the rhs; the residual of the independently written Neumann
5/7-point negative Laplacian is bounded by a tolerance for all rhs in [-1,1]^n (QF_LRA query per cell).
"""
import os
import sys
import warnings

sys.path.insert(0, os.path.dirname(os.path.dirname(os.path.abspath(__file__))))
import numpy as np  # noqa: E402

from checks.common import Check, Claim, bound_vars, close, close_array, scenario, sopht_modules  # noqa: E402

TOL = {"float64": 1e-11, "float32": 2e-4}  # absolute, rhs in [-1,1]; measured worst case of the exact-table residual: 5e-14 / 8e-7 (reported in the evidence)


def neumann_neg_laplacian(u, dx):
    """(A_h u) with mirror (homogeneous Neumann) closure at the faces; polymorphic"""
    out = u * 0
    nd = u.ndim
    for ax in range(nd):
        n = u.shape[ax]
        for i in range(n):
            sl = [slice(None)] * nd
            sl[ax] = i
            c = u[tuple(sl)]
            acc = c * 0
            for j in (i - 1, i + 1):
                if 0 <= j < n:
                    sj = list(sl)
                    sj[ax] = j
                    acc = acc + (c - u[tuple(sj)])
            out[tuple(sl)] = out[tuple(sl)] + acc / (dx * dx)
    return out


def _sum(a):
    acc = 0.0
    for v in np.asarray(a).reshape(-1):
        acc = acc + v
    return acc


def _symbolise_solver(ctx, solver):
    from symsopht.symarray import constant

    info = {}
    for k, v in list(solver.__dict__.items()):
        if not isinstance(v, np.ndarray):
            continue
        if k == "spectral_field_buffer":
            setattr(solver, k, ctx.array("spectral_buf", v.shape))
            continue
        if np.iscomplexobj(v):
            im = float(np.max(np.abs(v.imag))) if v.size else 0.0
            info[k] = im
            if im != 0.0:
                raise RuntimeError(f"{k}: eigen-data has non-zero imaginary part {im}")
            v = v.real
        with np.errstate(all="ignore"):
            setattr(solver, k, constant(np.where(np.isfinite(v), v, 0.0)) if k != "inv_eig_val_matrix" else constant(v))
    return info


@scenario
def _laid_out(ctx, name, fs, layout):
    """an array of shape fs with the requested memory layout (values arbitrary): the solvers accept any ndarray"""
    if layout == "c":
        return ctx.array(name, fs)
    if layout == "interior":  # interior view of a ghost-padded allocation
        big = ctx.array(name, tuple(n + 2 for n in fs))
        return big[tuple(slice(1, -1) for _ in fs)]
    if layout == "fortran":
        return ctx.array(name, tuple(reversed(fs))).T
    if layout == "strided":  # every second cell along the last axis
        big = ctx.array(name, tuple(fs[:-1]) + (2 * fs[-1],))
        return big[..., ::2]
    raise ValueError(layout)


@scenario
def fastdiag_solve(ctx, dim, shape, dx, vector, layout="c", rhs_layout="c", support=None):
    _, spne, _, _ = sopht_modules()
    shape = tuple(shape)
    rt_name = "float32" if ctx.real_t == np.float32 else "float64"
    tol = TOL[rt_name]
    with warnings.catch_warnings():
        warnings.simplefilter("ignore")
        if dim == 2:
            solver = spne.FastDiagPoissonSolver2D(grid_size_y=shape[0], grid_size_x=shape[1], dx=ctx.real_t(dx), real_t=ctx.real_t)
        else:
            solver = spne.FastDiagPoissonSolver3D(grid_size_z=shape[0], grid_size_y=shape[1], grid_size_x=shape[2], dx=ctx.real_t(dx), real_t=ctx.real_t)
    fs = (3, *shape) if vector else shape
    if support is None:
        f = _laid_out(ctx, "rhs", fs, rhs_layout)
    else:
        # large grids: the right-hand side is arbitrary on the listed cells and zero elsewhere (the solve is linear in f)
        f = ctx.zeros(fs)
        for ci, c in enumerate(support):
            f[tuple(c)] = ctx.scalar(f"rhs[{','.join(map(str, c))}]", default=0.0)
    u = _laid_out(ctx, "solution_prior", fs, layout)
    bound_vars(ctx, f if support is None else [f[tuple(c)] for c in support])
    if not ctx.sym:
        sb0 = ctx.array("spectral_buf", solver.spectral_field_buffer.shape)
        solver.spectral_field_buffer[...] = sb0
    if ctx.sym:
        # reachability witness on the real numeric build: solve() must return normally with a real result
        rng = np.random.default_rng(1)
        fw = rng.uniform(-1, 1, fs).astype(ctx.real_t)
        uw = np.zeros(fs, dtype=ctx.real_t)
        try:
            with warnings.catch_warnings():
                warnings.simplefilter("ignore")
                (solver.vector_field_solve(uw, fw) if vector else solver.solve(uw, fw))
            ctx.claims.append(Claim("returns_normally", "unsat"))
            ok = uw.dtype == ctx.real_t and np.all(np.isfinite(uw))
            ctx.claims.append(Claim("returns_normally_with_finite_real_result", "unsat" if ok else "sat", {}))
            if not ok:
                ctx.nfail += 1
        except Exception as e:
            ctx.claims.append(Claim("returns_normally", "sat", {}))
            ctx.nfail += 1
            ctx.note(f"numeric witness raised {type(e).__name__}: {e}")
            return
        _symbolise_solver(ctx, solver)
    else:
        ctx.replay_result = (False, "solve returned normally")
    f0 = f.copy()
    if vector:
        solver.vector_field_solve(solution_vector_field=u, rhs_vector_field=f)
    else:
        solver.solve(solution_field=u, rhs_field=f)
    if not ctx.sym and ctx.target.startswith("returns_normally"):
        ok = u.dtype == ctx.real_t and np.all(np.isfinite(u))
        ctx.replay_result = (not ok, f"solve returned, dtype={u.dtype}")
        return
    ctx.same_array("rhs_untouched", f, f0)
    # history independence, two-copy form: same rhs, different arbitrary buffer / prior solution contents
    with warnings.catch_warnings():
        warnings.simplefilter("ignore")
        if dim == 2:
            solver_b = spne.FastDiagPoissonSolver2D(grid_size_y=shape[0], grid_size_x=shape[1], dx=ctx.real_t(dx), real_t=ctx.real_t)
        else:
            solver_b = spne.FastDiagPoissonSolver3D(grid_size_z=shape[0], grid_size_y=shape[1], grid_size_x=shape[2], dx=ctx.real_t(dx), real_t=ctx.real_t)
    ub = ctx.array("solution_prior_B", fs)
    if ctx.sym:
        _symbolise_solver(ctx, solver_b)
        solver_b.spectral_field_buffer = ctx.array("spectral_buf_B", solver_b.spectral_field_buffer.shape)
    else:
        sb = ctx.array("spectral_buf_B", solver_b.spectral_field_buffer.shape)
        solver_b.spectral_field_buffer[...] = sb
    (solver_b.vector_field_solve(solution_vector_field=ub, rhs_vector_field=f) if vector else solver_b.solve(solution_field=ub, rhs_field=f))
    ctx.eq_array("independent_of_prior_buffers_and_solution", u, ub)
    comps = [(u[i], f0[i]) for i in range(3)] if vector else [(u, f0)]
    n = int(np.prod(shape))
    dxv = float(ctx.real_t(dx))
    for ci, (uc, fc) in enumerate(comps):
        if ctx.sym:
            from symsopht import sym as S

            if vector:
                others = [v for v in S.free_vars(list(np.asarray(uc).reshape(-1))) if not v.args[0].startswith(f"rhs[{ci},")]
                ctx.claim(f"component_{ci}_depends_only_on_rhs_component_{ci}", len(others) == 0)
        mean = _sum(fc) / n
        res = neumann_neg_laplacian(uc, dxv)
        close_array(ctx, f"neumann_residual:comp{ci}", res, fc - mean, tol)
        close(ctx, f"zero_mean:comp{ci}", _sum(uc) / n, 0.0, tol)


@scenario
def solver_objects_do_not_share_state(ctx, dim, shape, dx1, dx2):
    """construction history: a solver built after another one of the same shape but a different spacing solves ITS problem"""
    _, spne, _, _ = sopht_modules()
    shape = tuple(shape)
    rt_name = "float32" if ctx.real_t == np.float32 else "float64"
    solvers = []
    with warnings.catch_warnings():
        warnings.simplefilter("ignore")
        for dx in (dx1, dx2):
            if dim == 2:
                solvers.append(spne.FastDiagPoissonSolver2D(grid_size_y=shape[0], grid_size_x=shape[1], dx=ctx.real_t(dx), real_t=ctx.real_t))
            else:
                solvers.append(spne.FastDiagPoissonSolver3D(grid_size_z=shape[0], grid_size_y=shape[1], grid_size_x=shape[2], dx=ctx.real_t(dx), real_t=ctx.real_t))
    second = solvers[1]
    f = ctx.array("rhs", shape)
    u = ctx.array("solution_prior", shape)
    bound_vars(ctx, f)
    if ctx.sym:
        _symbolise_solver(ctx, second)
    second.solve(solution_field=u, rhs_field=f)
    n = int(np.prod(shape))
    res = neumann_neg_laplacian(u, float(ctx.real_t(dx2)))
    close_array(ctx, "second_solver_neumann_residual", res, f - _sum(f) / n, TOL[rt_name])


def main():
    chk = Check("C11", "fast-diagonalisation solver: residual of the discrete Neumann problem for all right-hand sides in a box (symbolic execution of solve(), QF_LRA tolerance queries)",
                functions=["FastDiagPoissonSolver2D.solve", "FastDiagPoissonSolver3D.solve", "FastDiagPoissonSolver3D.vector_field_solve"],
                files=["sopht/numeric/eulerian_grid_ops/poisson_solver_2d/FastDiagPoissonSolver2D.py", "sopht/numeric/eulerian_grid_ops/poisson_solver_3d/FastDiagPoissonSolver3D.py"])
    chk.maybe_replay()
    sopht_modules()
    if chk.quick:
        s2 = [(2, 2), (2, 5), (3, 3), (4, 6), (5, 4), (6, 6)]
        s3 = [(2, 2, 2), (2, 3, 4), (4, 3, 2), (3, 3, 3)]
        dxs = [0.2]
        rts = ["float64"]
    else:
        s2 = [(a, b) for a in range(2, 9) for b in range(2, 9)] + [(3, 12), (12, 5), (10, 10), (3, 16), (16, 5)]
        s3 = [(a, b, c) for a in (2, 3, 4) for b in (2, 3, 4) for c in (2, 3, 4)] + [(4, 5, 6), (6, 2, 3)]
        dxs = [0.2, 0.37]
        rts = ["float64", "float32"]
    for rt in rts:
        for dx in dxs:
            for sh in s2:
                chk.add(fastdiag_solve, real_t=rt, dim=2, shape=sh, dx=dx, vector=False)
            for sh in s3:
                chk.add(fastdiag_solve, real_t=rt, dim=3, shape=sh, dx=dx, vector=False)
            chk.add(fastdiag_solve, real_t=rt, dim=3, shape=s3[1], dx=dx, vector=True)
        chk.add(solver_objects_do_not_share_state, real_t=rt, dim=2, shape=(3, 4), dx1=0.2, dx2=0.37)
        chk.add(solver_objects_do_not_share_state, real_t=rt, dim=3, shape=(2, 3, 4), dx1=0.2, dx2=0.37)
        chk.add(solver_objects_do_not_share_state, real_t=rt, dim=3, shape=(3, 3, 3), dx1=0.5, dx2=0.125)
    # the largest sizes of the statement (2..64) with a right-hand side supported on a few cells, both precisions
    big = [((8, 64), [(0, 0), (3, 17), (7, 63), (4, 40)]), ((64, 5), [(0, 0), (31, 2), (63, 4), (40, 1)])] if chk.quick else \
          [((8, 64), [(0, 0), (3, 17), (7, 63), (4, 40)]), ((64, 5), [(0, 0), (31, 2), (63, 4), (40, 1)]), ((64, 64), [(0, 0), (13, 50), (63, 63), (40, 7)]), ((33, 62), [(0, 0), (16, 30), (32, 61)])]
    for sh, sup in big:
        for rt in ("float64", "float32"):
            chk.add(fastdiag_solve, real_t=rt, dim=2, shape=sh, dx=0.2, vector=False, support=sup)
    for rt in ("float64", "float32"):
        chk.add(fastdiag_solve, real_t=rt, dim=3, shape=(3, 4, 64), dx=0.2, vector=False, support=[(0, 0, 0), (1, 2, 33), (2, 3, 63)])
    if not chk.quick:
        chk.add(fastdiag_solve, real_t="float32", dim=2, shape=(4, 64), dx=0.2, vector=False)
    # memory layout of the caller's arrays (ghost-padded interior, Fortran order, strided view)
    for rt in rts:
        for lay in ("interior", "fortran", "strided"):
            chk.add(fastdiag_solve, real_t=rt, dim=2, shape=(3, 4), dx=0.2, vector=False, layout=lay, rhs_layout=lay)
            chk.add(fastdiag_solve, real_t=rt, dim=3, shape=(2, 3, 4), dx=0.2, vector=False, layout=lay, rhs_layout="c")
        chk.add(fastdiag_solve, real_t=rt, dim=3, shape=(2, 3, 2), dx=0.2, vector=True, layout="interior", rhs_layout="c")
    if chk.quick:
        chk.add(fastdiag_solve, real_t="float32", dim=2, shape=(3, 4), dx=0.2, vector=False)
        chk.add(fastdiag_solve, real_t="float32", dim=3, shape=(2, 3, 4), dx=0.2, vector=True)
    chk.bounds = [f"2D shapes {s2[:8]}... ({len(s2)}), 3D shapes ({len(s3)}), dx in {dxs}, precisions {rts}", "sizes up to 64: (8,64),(64,5),(3,4,64) (thorough also (64,64),(33,62) and a fully symbolic (4,64)) with the right-hand side arbitrary on 3-4 cells and zero elsewhere, both precisions", "caller arrays C-contiguous, plus: interior of a ghost-padded allocation, Fortran order, strided view (on (3,4)/(2,3,4)/(2,3,2))", "rhs cells symbolic in [-1,1]; prior solution and spectral buffer contents arbitrary symbolic",
                  f"tolerances (absolute, rhs in [-1,1]): {TOL}"]
    chk.outside = ["sizes above the enumerated ones (the property's 'sizes 2..64')", "rounding inside solve() (exact product of the concrete float eigen-tables)", "LAPACK (its results are data)"]
    chk.assumptions = ["eigen-data returned by numpy.linalg.eig has exactly zero imaginary part (checked concretely each run); complex arithmetic with zero imaginary parts is modelled as real arithmetic",
                       "dtype / exceptions are decided on a numeric witness run of the real code (reachability witness), not by the solver"]
    chk.run()
    chk.finish()


if __name__ == "__main__":
    main()
