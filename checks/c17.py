#!/usr/bin/env python
"""C17 - saved fields reload exactly and mismatching files are rejected.

Symbolic execution of IO.define_eulerian_grid / add_* / save / load (and CosseratRodIO,
EulerianFieldIO) with h5py replaced by an in-memory tree (contract: faithful store).  Field contents
are solver variables; the marker count N ranges over a family that contains N == dim.  Rejection:
presence of every dataset/grid key and the stored origin/dx/grid_size become symbolic and the paths
of load() are explored.
"""
import os
import sys
import tempfile

sys.path.insert(0, os.path.dirname(os.path.dirname(os.path.abspath(__file__))))
from fractions import Fraction  # noqa: E402
import numpy as np  # noqa: E402

from checks.common import Check, explore, scenario, sopht_modules  # noqa: E402


class FileAccess:
    """uniform access to the 'on disk' content: in-memory stub (sym) or real HDF5 (num)"""

    def __init__(self, ctx):
        self.ctx = ctx
        sopht_modules()
        import sopht.utils.io as io_mod

        self.io_mod = io_mod
        if ctx.sym:
            from symsopht import stubs_h5

            self.stub = stubs_h5
            stubs_h5.FILES.clear()
            stubs_h5.File.presence = None
            io_mod.h5py = stubs_h5.module
            self.dir = tempfile.mkdtemp(prefix="c17_", dir=os.path.expanduser("~/.cache"))
        else:
            self.dir = tempfile.mkdtemp(prefix="c17_", dir=os.path.expanduser("~/.cache"))

    def path(self, name):
        return os.path.join(self.dir, name)

    def dataset(self, fname, key):
        if self.ctx.sym:
            return self.stub.FILES[fname][key].data
        import h5py

        with h5py.File(fname, "r") as f:
            return f[key][...]

    def has(self, fname, key):
        if self.ctx.sym:
            return key in self.stub.FILES[fname]
        import h5py

        with h5py.File(fname, "r") as f:
            return key in f

    def cleanup(self):
        import shutil

        shutil.rmtree(self.dir, ignore_errors=True)


def _build(ctx, io_mod, dim, grid, n_markers, tag, with_eulerian=True, lag_fields=True, named=True):
    io = io_mod.IO(dim=dim, real_dtype=ctx.real_t)
    arrays = {}
    if with_eulerian:
        io.define_eulerian_grid(origin=np.array([0.0] * dim), dx=np.array([0.25] * dim), grid_size=np.array(grid))
        arrays["es"] = ctx.array(f"{tag}_es", grid)
        arrays["ev"] = ctx.array(f"{tag}_ev", (dim, *grid))
        io.add_as_eulerian_fields_for_io(es=arrays["es"], ev=arrays["ev"])
    for gi, n in enumerate(n_markers):
        g = ctx.array(f"{tag}_g{gi}", (dim, n))
        arrays[f"g{gi}"] = g
        fields = {}
        if lag_fields:
            fields[f"ls{gi}"] = ctx.array(f"{tag}_ls{gi}", (n,))
            fields[f"lv{gi}"] = ctx.array(f"{tag}_lv{gi}", (dim, n))
            arrays.update(fields)
        io.add_as_lagrangian_fields_for_io(lagrangian_grid=g, lagrangian_grid_name=(f"grid{gi}" if named else None), **fields)
    return io, arrays


@scenario
def roundtrip(ctx, dim, grid, n_markers, named, lag_fields):
    fa = FileAccess(ctx)
    try:
        grid = tuple(grid)
        io1, a1 = _build(ctx, fa.io_mod, dim, grid, n_markers, "a", lag_fields=lag_fields, named=named)
        io2, a2 = _build(ctx, fa.io_mod, dim, grid, n_markers, "b", lag_fields=lag_fields, named=named)
        prior = {k: v.copy() for k, v in a1.items()}
        t = ctx.scalar("time")
        fname = fa.path("f.h5")
        io1.save(h5_file_name=fname, time=t)
        for k in a1:
            ctx.same_array(f"source_untouched_by_save:{k}", a1[k], prior[k])
        # on-disk layout
        for k in range(dim):
            ds = fa.dataset(fname, f"Eulerian/Vector/ev_{k}")
            ctx.claim(f"layout_eulerian_vector_shape:{k}", tuple(ds.shape) == (1, *grid))
            if tuple(ds.shape) == (1, *grid):
                ctx.eq_array(f"layout_eulerian_vector_comp{k}", ds[0], prior["ev"][k])
        ds = fa.dataset(fname, "Eulerian/Scalar/es")
        ctx.claim("layout_eulerian_scalar_shape", tuple(ds.shape) == (1, *grid))
        for gi, n in enumerate(n_markers):
            gname = f"grid{gi}" if named else f"Lagrangian_grid_{gi}"
            ds = fa.dataset(fname, f"Lagrangian/{gname}/Grid")
            ctx.claim(f"layout_grid_marker_major_shape:g{gi}", tuple(ds.shape) == (n, dim))
            if tuple(ds.shape) == (n, dim):
                ctx.eq_array(f"layout_grid_marker_major:g{gi}", ds, prior[f"g{gi}"].T)
            if lag_fields:
                ok = fa.has(fname, f"Lagrangian/{gname}/Vector/lv{gi}")
                ctx.claim(f"layout_vector_field_stored_as_Vector[N={n}]:lv{gi}", ok)
                if ok:
                    ds = fa.dataset(fname, f"Lagrangian/{gname}/Vector/lv{gi}")
                    ctx.claim(f"layout_vector_field_marker_major_shape[N={n}]:lv{gi}", tuple(ds.shape) == (n, dim))
                    if tuple(ds.shape) == (n, dim):
                        ctx.eq_array(f"layout_vector_field_marker_major[N={n}]:lv{gi}", ds, prior[f"lv{gi}"].T)
                ok = fa.has(fname, f"Lagrangian/{gname}/Scalar/ls{gi}")
                ctx.claim(f"layout_scalar_field_stored_as_Scalar[N={n}]:ls{gi}", ok)
                if ok:
                    ds = fa.dataset(fname, f"Lagrangian/{gname}/Scalar/ls{gi}")
                    ctx.claim(f"layout_scalar_field_shape[N={n}]:ls{gi}", tuple(ds.shape) == (n,))
        t2 = io2.load(h5_file_name=fname)
        ctx.eq("time_restored", t2, t)
        for k in a1:
            ctx.eq_array(f"restored:{k}", a2[k], prior[k])
    finally:
        fa.cleanup()


@scenario
def roundtrip_mixed_precision(ctx, dim, n):
    """IO object declared single precision, registered arrays double precision (what CosseratRodIO(real_dtype=float32) does with
    PyElastica's float64 rod data): the round trip must still be bit-exact"""
    fa = FileAccess(ctx)
    try:
        if ctx.sym:
            fa.stub.SOURCE_IS_DOUBLE[0] = True
        ios, arrs = [], []
        for tag in ("a", "b"):
            io = fa.io_mod.IO(dim=dim, real_dtype=np.float32)
            g, ls, lv = (ctx.array(f"{tag}_g", (dim, n), default=1 / 3), ctx.array(f"{tag}_ls", (n,), default=1 / 7), ctx.array(f"{tag}_lv", (dim, n), default=0.1))
            if not ctx.sym:
                g, ls, lv = (np.array(x, dtype=np.float64) for x in (g, ls, lv))
                if not ctx.model:
                    rng = np.random.default_rng(3)
                    g, ls, lv = (rng.standard_normal(x.shape) for x in (g, ls, lv))
            io.add_as_lagrangian_fields_for_io(lagrangian_grid=g, lagrangian_grid_name="grid", ls=ls, lv=lv)
            ios.append(io)
            arrs.append({"g": g, "ls": ls, "lv": lv})
        prior = {k: v.copy() for k, v in arrs[0].items()}
        fname = fa.path("m.h5")
        ios[0].save(h5_file_name=fname, time=0.5)
        ios[1].load(h5_file_name=fname)
        for k in prior:
            if ctx.sym:
                ctx.eq_array(f"restored_bit_exactly_with_single_precision_IO_and_double_data:{k}", arrs[1][k], prior[k])
            else:
                if ctx.target is None or ctx.target.startswith(f"restored_bit_exactly_with_single_precision_IO_and_double_data:{k}["):
                    ok = bool(np.array_equal(arrs[1][k], prior[k]))
                    if not ok or ctx.replay_result is None:
                        ctx.replay_result = (not ok, f"{k}: max |restored - saved| = {float(np.max(np.abs(arrs[1][k] - prior[k]))):.3e}")
    finally:
        if ctx.sym:
            fa.stub.SOURCE_IS_DOUBLE[0] = False
        fa.cleanup()


@scenario
def rejection(ctx, dim, grid, n_markers):
    """symbolic presence of every key + symbolic stored parameters: load raises unless all registered
    keys are present and parameters agree within numpy.allclose's tolerance"""
    fa = FileAccess(ctx)
    try:
        grid = tuple(grid)
        io1, a1 = _build(ctx, fa.io_mod, dim, grid, n_markers, "a")
        fname = fa.path("f.h5")
        io1.save(h5_file_name=fname, time=0.5)
        if not ctx.sym:
            return _rejection_numeric(ctx, fa, dim, grid, n_markers, fname)
        from symsopht import sym as S
        from symsopht.symarray import SymArray

        registered = ["Eulerian/Scalar/es"] + [f"Eulerian/Vector/ev_{k}" for k in range(dim)]
        for gi in range(len(n_markers)):
            registered += [f"Lagrangian/grid{gi}/Grid", f"Lagrangian/grid{gi}/Scalar/ls{gi}", f"Lagrangian/grid{gi}/Vector/lv{gi}"]
        pres = {k: S.var("present:" + k, S.BOOL) for k in registered}
        fa.stub.File.presence = lambda p: pres.get(p, True)
        # stored parameters become variables
        par = fa.stub.FILES[fname]["Eulerian/Parameters"].attrs
        stored = {}
        for name in ("origin", "dx", "grid_size"):
            v = SymArray((dim,))
            for i in range(dim):
                v[i] = S.var(f"stored_{name}[{i}]")
            stored[name] = v
            par[name] = v
        registered_vals = {"origin": [0.0] * dim, "dx": [0.25] * dim, "grid_size": list(grid)}

        def run():
            io2, a2 = _build(ctx, fa.io_mod, dim, grid, n_markers, "b")
            try:
                io2.load(h5_file_name=fname)
                returned = True
            except (ValueError, KeyError) as e:
                returned = False
            all_present = S.And(*pres.values())
            close = S.TRUE
            for name in ("origin", "dx", "grid_size"):
                for i in range(dim):
                    b = stored[name][i]
                    close = S.And(close, S.sabs(S.lift(registered_vals[name][i]) - b) <= S.lift(1e-8) + S.lift(1e-5) * S.sabs(b))
            if returned:
                ctx.claim("returns_only_if_all_keys_present", all_present)
                # counterexamples that survive floating point: exactly one stored parameter clearly off, the others exact
                robust = []
                for off, margin in (("grid_size", 1), ("dx", Fraction(1, 10)), ("origin", Fraction(1, 10))):
                    parts = []
                    for name in ("origin", "dx", "grid_size"):
                        for i in range(dim):
                            b, r0 = stored[name][i], S.lift(registered_vals[name][i])
                            parts.append(S.sabs(b - r0) >= margin if (name == off and i == 0) else S._cmp("eq", b, r0))
                    robust.append(S.And(*parts))
                ctx.claim("returns_only_if_parameters_match", close, robust=robust)
            else:
                ctx.claim("raises_only_if_something_mismatches", S.Not(S.And(all_present, close)))
            return returned

        res = explore(ctx, run, max_paths=256)
        ctx.claim("both_outcomes_reachable", any(r for _, r in res) and any(not r for _, r in res))
        ctx.note(f"paths explored: {len(res)}")
    finally:
        fa.cleanup()


def _rejection_numeric(ctx, fa, dim, grid, n_markers, fname):
    """replay of a rejection counterexample on real HDF5: delete the keys the model marks absent,
    overwrite the stored parameters with the model's values, then load with a fresh IO"""
    import h5py

    absent = [k[len("present:"):] for k, v in ctx.model.items() if k.startswith("present:") and v is False]
    with h5py.File(fname, "a") as f:
        for k in absent:
            if k in f:
                del f[k]
        for name in ("origin", "dx", "grid_size"):
            cur = np.array(f["Eulerian/Parameters"].attrs[name], dtype=float)
            for i in range(dim):
                key = f"stored_{name}[{i}]"
                if key in ctx.model:
                    cur[i] = ctx._num(key, cur[i])
            f["Eulerian/Parameters"].attrs[name] = cur
        stored = {n: np.array(f["Eulerian/Parameters"].attrs[n], dtype=float) for n in ("origin", "dx", "grid_size")}
    io2, a2 = _build(ctx, fa.io_mod, dim, grid, n_markers, "b")
    try:
        io2.load(h5_file_name=fname)
        returned = True
    except Exception:
        returned = False
    reg = {"origin": [0.0] * dim, "dx": [0.25] * dim, "grid_size": list(grid)}
    close = all(np.allclose(reg[n], stored[n]) for n in reg)
    mismatch = bool(absent) or not close
    if ctx.target.startswith("returns_only_if"):
        ctx.replay_result = (returned and mismatch, f"load returned={returned} although absent={absent} params_close={close}")
    else:
        ctx.replay_result = ((not returned) and not mismatch, f"load raised although nothing mismatches")


@scenario
def derived_io_classes(ctx, kind, dim):
    fa = FileAccess(ctx)
    try:
        _, _, sps, _ = sopht_modules()
        fname = fa.path("d.h5")
        if kind == "eulerian":
            grid = (3, 4) if dim == 2 else (2, 3, 4)
            sim = sps.PassiveTransportFlowSimulator(kinematic_viscosity=0.1, grid_dim=dim, grid_size=grid, x_range=1.0, real_t=ctx.real_t, num_threads=1)
            f1, v1 = ctx.array("f1", grid), ctx.array("v1", (dim, *grid))
            f2, v2 = ctx.array("f2", grid), ctx.array("v2", (dim, *grid))
            io1 = fa.io_mod.EulerianFieldIO(position_field=sim.position_field, eulerian_fields_dict={"s": f1, "v": v1})
            io2 = fa.io_mod.EulerianFieldIO(position_field=sim.position_field, eulerian_fields_dict={"s": f2, "v": v2})
            p1, pv1 = f1.copy(), v1.copy()
            t = ctx.scalar("time")
            io1.save(h5_file_name=fname, time=t)
            t2 = io2.load(h5_file_name=fname)
            ctx.eq("time_restored", t2, t)
            ctx.eq_array("restored:s", f2, p1)
            ctx.eq_array("restored:v", v2, pv1)
        else:
            import elastica as ea

            n_elem = 3
            rods = []
            for _ in range(2):
                rods.append(ea.CosseratRod.straight_rod(n_elem, np.zeros(3), np.array([1.0, 0, 0]), np.array([0.0, 0, 1.0]), 1.0, 0.05, 1.0, youngs_modulus=1e4, shear_modulus=1e4 / 1.5))
            pos = ctx.array("pos", (3, n_elem + 1))
            rad = ctx.array("rad", (n_elem,))
            if not ctx.sym:
                rods[0].position_collection[...] = pos
                rods[0].radius[...] = rad
            io1 = fa.io_mod.CosseratRodIO(cosserat_rod=rods[0], dim=dim, real_dtype=ctx.real_t)
            io2 = fa.io_mod.CosseratRodIO(cosserat_rod=rods[1], dim=dim, real_dtype=ctx.real_t)
            if ctx.sym:
                # the constructors ran on the numeric rods; now swap every array they registered for symbolic storage
                for io, rod, tag, p_, r_ in ((io1, rods[0], "a", pos, rad), (io2, rods[1], "b", ctx.array("pos_b", (3, n_elem + 1)), ctx.array("rad_b", (n_elem,)))):
                    rod.position_collection = p_
                    rod.radius = r_
                    buf = ctx.array(f"elempos_{tag}", (dim, n_elem))
                    io.rod_element_position = buf
                    io.lagrangian_grids["rod"] = buf
                    io.lagrangian_fields["scalar_3d"] = r_
            io1.save(h5_file_name=fname, time=0.25)
            ds = fa.dataset(fname, "Lagrangian/rod/Grid")
            centre = 0.5 * (pos[:dim, 1:] + pos[:dim, :-1])
            ctx.eq_array("rod_grid_is_element_centres_marker_major", ds, centre.T)
            io2.load(h5_file_name=fname)
            ctx.eq_array("restored:rod_element_position", io2.rod_element_position, centre)
            ctx.eq_array("restored:radius", rods[1].radius, rad)
    finally:
        fa.cleanup()


def main():
    chk = Check("C17", "IO round trip, on-disk layout for every marker count in the family (incl. N == dim) and rejection paths (symbolic execution with an in-memory HDF5 stub, z3)",
                functions=["IO.define_eulerian_grid", "IO.add_as_eulerian_fields_for_io", "IO.add_as_lagrangian_fields_for_io", "IO._save", "IO.load", "CosseratRodIO", "EulerianFieldIO"],
                files=["sopht/utils/io.py"])
    chk.maybe_replay()
    sopht_modules()
    rts = ["float64", "float32"]
    for rt in rts:
        for dim, grid in ((2, (2, 3)), (3, (2, 2, 3))):
            fam = sorted({1, dim - 1, dim, dim + 1, 5})
            for n in fam:
                chk.add(roundtrip, real_t=rt, dim=dim, grid=grid, n_markers=[n], named=True, lag_fields=True)
            chk.add(roundtrip, real_t=rt, dim=dim, grid=grid, n_markers=[dim + 1, 2 * dim], named=False, lag_fields=True)
            chk.add(roundtrip, real_t=rt, dim=dim, grid=grid, n_markers=[4], named=True, lag_fields=False)
            chk.add(rejection, real_t=rt, dim=dim, grid=grid, n_markers=[4])
            # IO objects used earlier in the same process (other marker count / naming / without Lagrangian fields)
            chk.add(roundtrip, real_t=rt, dim=dim, grid=grid, n_markers=[dim], named=True, lag_fields=True,
                    _earlier=[{"n_markers": [dim + 1, 2 * dim], "named": False}, {"lag_fields": False, "n_markers": [4]}, {"_real_t": "float32" if rt == "float64" else "float64"}])
            chk.add(roundtrip_mixed_precision, real_t=rt, dim=dim, n=3)
            chk.add(derived_io_classes, real_t=rt, kind="eulerian", dim=dim)
            chk.add(derived_io_classes, real_t=rt, kind="rod", dim=dim)
    chk.bounds = ["marker counts N in {1, dim-1, dim, dim+1, 5} (one grid), two grids (dim+1, 2dim) with default names, a grid without fields", "Eulerian grids (2,3), (2,2,3); one scalar + one vector field per kind",
                  "rejection: presence of each of the registered keys and the stored origin/dx/grid_size symbolic; all paths of load() explored (bounded by 256)"]
    chk.outside = ["bit fidelity of NaN/inf/denormals through the real HDF5 library (stub contract: faithful store)", "xdmf text", "larger field sets"]
    chk.assumptions = ["h5py stores and returns datasets/attributes faithfully", "'parameters differ' is read as differ beyond numpy.allclose's default tolerance (what the code documents by using allclose)"]
    chk.run()
    chk.finish()


if __name__ == "__main__":
    main()
