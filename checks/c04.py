#!/usr/bin/env python
"""C04 - transport, diffusion and forcing conserve total vorticity / transported scalar.

(a) face-flux identity for every ENO3 face-kernel pair: the increment the front-face kernel gives
    cell c plus the increment the back-face kernel gives cell c+e is zero for ALL field/velocity
    values (the upwind switches are ite terms, so every sign pattern is inside one query).
(b) telescoping: sum over the grid of the increment of the curl-type forcing update, the diffusion
    flux and the Laplacian filters vanishes for compactly supported data.
(c) the real simulator step conserves the grid sum for compactly supported vorticity / forcing and
    arbitrary velocity (see c04_step.py, scheduled from here when available).
"""
import os
import sys

sys.path.insert(0, os.path.dirname(os.path.dirname(os.path.abspath(__file__))))
import numpy as np  # noqa: E402

from checks.common import Check, scenario, sopht_modules  # noqa: E402
from checks import c04_step  # noqa: E402,F401  (registers the step scenario also for replays)


def _face_handles(dim):
    """[(axis, front_handle, back_handle)] of the ENO3 flux generator, classified from the IR"""
    from symsopht import load
    from symsopht.iranalysis import IRInfo

    _, spne, _, _ = sopht_modules()
    n0 = len(load.HANDLES)
    gen = spne.gen_advection_flux_conservative_eno3_pyst_kernel_2d if dim == 2 else spne.gen_advection_flux_conservative_eno3_pyst_kernel_3d
    gen(real_t=np.float64, num_threads=False)
    hs = load.HANDLES[n0:]
    if len(hs) != 2 * dim:
        raise RuntimeError(f"expected {2 * dim} face kernels, found {len(hs)}")
    by_axis = {}
    import z3

    for h in hs:
        ir = IRInfo(h)
        vel = [f for f in ir.fields if f.startswith("velocity_")]
        if len(vel) != 1:
            raise RuntimeError("face kernel without a single velocity component")
        axis = vel[0][-1]
        # reach along the advection axis: +2 -> front face kernel, -2 -> back face kernel
        arr_axis = dim - 1 - "xyz".index(axis)
        reach = set()
        for (f, w, idx) in ir.accesses:
            e = z3.simplify(idx[arr_axis] - ir.zint(f"ctr_{arr_axis}"))
            reach.add(e.as_long())
        kind = "front" if max(reach) == 2 else "back" if min(reach) == -2 else None
        if kind is None:
            raise RuntimeError(f"cannot classify face kernel (reach {reach})")
        by_axis.setdefault(axis, {})[kind] = (h, vel[0])
    return by_axis


@scenario
def face_flux_identity(ctx, dim, axis, shape):
    shape = tuple(shape)
    pair = _face_handles(dim)[axis]
    (hf, vname), (hb, _) = pair["front"], pair["back"]
    f = ctx.array("f", shape)
    u = ctx.array("u", shape)
    inv_dx = ctx.scalar("inv_dx")
    a0 = ctx.array("flux0", shape)
    af, ab = a0.copy(), a0.copy()
    hf.compile()(advection_flux=af, field=f, **{vname: u}, inv_dx=ctx.cast(inv_dx))
    hb.compile()(advection_flux=ab, field=f, **{vname: u}, inv_dx=ctx.cast(inv_dx))
    ax = dim - 1 - "xyz".index(axis)
    e = [0] * dim
    e[ax] = 1
    for c in np.ndindex(*shape):
        cn = tuple(ci + ei for ci, ei in zip(c, e))
        if not all(2 <= i < n - 2 for i, n in zip(c, shape)) or not all(2 <= i < n - 2 for i, n in zip(cn, shape)):
            continue
        leaving = af[c] - a0[c]  # + inv_dx * F_front(c)
        entering = ab[cn] - a0[cn]  # - inv_dx * F_back(c+e)
        ctx.eq(f"front_flux_of_cell_equals_back_flux_of_neighbour[{','.join(map(str, c))}]", leaving + entering, 0.0)
    # conservation *form*: each kernel adds +-inv_dx*F to the prior flux content (F independent of it)
    b0 = ctx.array("flux0b", shape)
    af2, ab2 = b0.copy(), b0.copy()
    hf.compile()(advection_flux=af2, field=f, **{vname: u}, inv_dx=ctx.cast(inv_dx))
    hb.compile()(advection_flux=ab2, field=f, **{vname: u}, inv_dx=ctx.cast(inv_dx))
    ctx.eq_array("front_increment_independent_of_prior_flux", af - a0, af2 - b0)
    ctx.eq_array("back_increment_independent_of_prior_flux", ab - a0, ab2 - b0)


def _sum(a):
    acc = 0.0
    for v in np.asarray(a).reshape(-1):
        acc = acc + v
    return acc


def _compact(ctx, name, shape, margin):
    """array that is zero within `margin` cells of every face of the trailing len(shape) axes"""
    if any(n - 2 * margin < 1 for n in shape):
        raise RuntimeError(f"vacuous instance: no cell of a {tuple(shape)} grid is {margin} cells away from every face")
    a = ctx.zeros(shape)
    inner = tuple(slice(margin, n - margin) for n in shape)
    ishape = tuple(n - 2 * margin for n in shape)
    a[inner] = ctx.array(name, ishape)
    return a


@scenario
def telescoping(ctx, op, dim, shape):
    _, spne, _, _ = sopht_modules()
    shape = tuple(shape)
    p = ctx.scalar("prefactor")
    if op == "forcing_update":
        if dim == 2:
            k = spne.gen_update_vorticity_from_velocity_forcing_pyst_kernel_2d(real_t=ctx.real_t, num_threads=False)
            w = ctx.array("w", shape)
            F = ctx.zeros((2, *shape))
            for i in range(2):
                F[i] = _compact(ctx, f"f{i}", shape, 2)
            w0 = w.copy()
            k(vorticity_field=w, velocity_forcing_field=F, prefactor=ctx.cast(p))
            ctx.eq("sum_of_increment_zero", _sum(w - w0), 0.0)
        else:
            k = spne.gen_update_vorticity_from_velocity_forcing_pyst_kernel_3d(real_t=ctx.real_t, num_threads=False)
            w = ctx.array("w", (3, *shape))
            F = ctx.zeros((3, *shape))
            for i in range(3):
                F[i] = _compact(ctx, f"f{i}", shape, 2)
            w0 = w.copy()
            k(vorticity_field=w, velocity_forcing_field=F, prefactor=ctx.cast(p))
            for i in range(3):
                ctx.eq(f"sum_of_increment_zero_comp{i}", _sum(w[i] - w0[i]), 0.0)
    elif op == "diffusion":
        f = _compact(ctx, "f", shape, 2)
        fl = ctx.array("fl", shape)
        if dim == 2:
            k = spne.gen_diffusion_flux_pyst_kernel_2d(real_t=ctx.real_t, num_threads=False)
        else:
            k = spne.gen_diffusion_flux_pyst_kernel_3d(real_t=ctx.real_t, num_threads=False)
        k(diffusion_flux=fl, field=f, prefactor=ctx.cast(p))
        ctx.eq("sum_of_diffusion_flux_zero", _sum(fl), 0.0)
    elif op.startswith("filter"):
        _, ftype, order = op.split(":")
        order = int(order)
        f = _compact(ctx, "f", shape, order + 1)
        f0 = f.copy()
        b1, b2 = ctx.array("b1", shape), ctx.array("b2", shape)
        k = spne.gen_laplacian_filter_kernel_3d(filter_order=order, filter_flux_buffer=b1, field_buffer=b2, real_t=ctx.real_t, num_threads=False, filter_type=ftype)
        k(scalar_field=f)
        ctx.eq("filter_conserves_sum", _sum(f), _sum(f0))
    elif op == "advection":
        f = _compact(ctx, "f", shape, 4)
        f0 = f.copy()
        u = ctx.array("u", (dim, *shape))
        fl = ctx.array("fl", shape)
        if dim == 2:
            k = spne.gen_advection_timestep_euler_forward_conservative_eno3_pyst_kernel_2d(real_t=ctx.real_t, num_threads=False)
        else:
            k = spne.gen_advection_timestep_euler_forward_conservative_eno3_pyst_kernel_3d(real_t=ctx.real_t, num_threads=False)
        k(field=f, advection_flux=fl, velocity=u, dt_by_dx=ctx.cast(p))
        ctx.eq("advection_step_conserves_sum", _sum(f), _sum(f0))
    else:
        raise ValueError(op)


def main():
    chk = Check("C04", "conservation: ENO3 face-flux identity for all values/sign patterns, telescoping sums, grid-sum conservation of the real step (z3)",
                functions=["gen_advection_flux_conservative_eno3_pyst_kernel_2d/3d (six/four face kernels)", "gen_advection_timestep_euler_forward_conservative_eno3_pyst_kernel_2d/3d",
                           "gen_update_vorticity_from_velocity_forcing_pyst_kernel_2d/3d", "gen_diffusion_flux_pyst_kernel_2d/3d", "gen_laplacian_filter_kernel_3d"],
                files=["sopht/numeric/eulerian_grid_ops/stencil_ops_2d/advection_flux_2d.py", "sopht/numeric/eulerian_grid_ops/stencil_ops_3d/advection_flux_3d.py",
                       "sopht/numeric/eulerian_grid_ops/stencil_ops_2d/diffusion_flux_2d.py", "sopht/numeric/eulerian_grid_ops/stencil_ops_3d/diffusion_flux_3d.py",
                       "sopht/numeric/eulerian_grid_ops/stencil_ops_2d/update_vorticity_from_velocity_forcing_2d.py", "sopht/numeric/eulerian_grid_ops/stencil_ops_3d/update_vorticity_from_velocity_forcing_3d.py",
                       "sopht/numeric/eulerian_grid_ops/stencil_ops_3d/laplacian_filter_3d.py", "sopht/simulator/flow/navier_stokes_flow_simulators.py",
                       "sopht/simulator/flow/passive_transport_flow_simulators.py"])
    chk.maybe_replay()
    sopht_modules()
    rts = ["float64", "float32"]
    for rt in rts:
        for dim in (2, 3):
            for axis in "xyz"[:dim]:
                chk.add(face_flux_identity, real_t=rt, dim=dim, axis=axis, shape=(6,) * dim if chk.quick else (7, 6, 8)[:dim])
            chk.add(telescoping, real_t=rt, op="forcing_update", dim=dim, shape=(7,) * dim)
            chk.add(telescoping, real_t=rt, op="diffusion", dim=dim, shape=(7,) * dim)
            chk.add(telescoping, real_t=rt, op="advection", dim=dim, shape=(10, 11) if dim == 2 else (9, 9, 10))
        for ftype in ("multiplicative", "convolution"):
            for order in ((1, 2) if chk.quick else (1, 2, 3)):
                chk.add(telescoping, real_t=rt, op=f"filter:{ftype}:{order}", dim=3, shape=(2 * order + 5,) * 3)
    c04_step.schedule(chk)
    chk.bounds = ["(a) every interior face of a 6^d (thorough: non-cubic 7x6(x8)) grid, all field/velocity values, all upwind sign patterns (ite inside the query)",
                  "(b) 7^d grids with two zero layers (filters: order+1 zero layers); ENO3 step on 10x11 / 9x9x10 with 4 zero layers, velocity arbitrary everywhere"]
    chk.outside += ["larger grids (stencils are translation invariant; the face identity is per face)", "rounding"]
    chk.assumptions = ["exact real arithmetic"]
    chk.run()
    chk.finish()


if __name__ == "__main__":
    main()
