"""Symbolic scalar terms (hash-consed DAG) for solver-based checking of SophT.

Semantics: exact real arithmetic.  Only trivially sound local rewrites happen here:
constant folding and flattening of linear combinations (a `lin` node is
sum_i c_i * atom_i + c0 with rational c_i).  Everything else (products of terms,
quotients, ite, abs, floor, transcendental applications) is an opaque *atom* that only the
SMT solver reasons about.
"""
from __future__ import annotations

import math
from fractions import Fraction

import numpy as np

REAL, BOOL = "R", "B"

_TABLE: dict = {}
_NEXT = [0]

# ---------------------------------------------------------------------------------------
# constant reading rule (DESIGN 4.2)
# ---------------------------------------------------------------------------------------
PI_NAME = "__pi__"
_PI_MULT: dict = {}
for _k in range(1, 9):
    for _m in range(1, 9):
        _PI_MULT.setdefault(float(_k * math.pi / _m), Fraction(_k, _m))
        _PI_MULT.setdefault(float(np.float32(_k * math.pi / _m)), Fraction(_k, _m))
_INV_PI_MULT: dict = {}
for _k in range(1, 9):
    for _m in range(1, 9):
        _INV_PI_MULT.setdefault(float(_m / (_k * math.pi)), Fraction(_m, _k))
        _INV_PI_MULT.setdefault(float(np.float32(_m / (_k * math.pi))), Fraction(_m, _k))

READ_RULE_LOG: dict = {}


def read_float(x, f32=False):
    """float -> Fraction | ('pi', Fraction) | ('invpi', Fraction) according to the reading rule."""
    if isinstance(x, (np.floating,)):
        if x.dtype == np.float32:
            f32 = True
        x = float(x)
    if x != x or x in (math.inf, -math.inf):
        raise NonFinite(x)
    if x == int(x) and abs(x) < 2**53:
        return Fraction(int(x))
    ax = abs(x)
    sgn = 1 if x > 0 else -1
    # multiples of pi first (355/226 is within one single-precision ulp of pi/2)
    r = _PI_MULT.get(ax)
    if r is not None:
        READ_RULE_LOG[x] = f"{sgn * r}*pi"
        return ("pi", sgn * r)
    r = _INV_PI_MULT.get(ax)
    if r is not None:
        READ_RULE_LOG[x] = f"{sgn * r}/pi"
        return ("invpi", sgn * r)
    fr = Fraction(ax).limit_denominator(1000)
    if f32:
        # single precision: the value must be THE correctly rounded image of the rational (rationals with denominator
        # <= 1000 are only ~1e-6 apart, a multi-ulp window would capture arbitrary data)
        ok = float(np.float32(float(fr))) == ax
    else:
        # double precision: within 4 ulp (values produced by linspace / a few float operations on such rationals)
        ok = abs(float(fr) - ax) <= 4 * math.ulp(ax)
    if ok:
        if fr.denominator not in (1, 2, 4, 8, 16, 32, 64, 128, 256, 512):
            READ_RULE_LOG[x] = str(sgn * fr)
        return sgn * fr
    return Fraction(x)


class NonFinite(ValueError):
    pass


class SymError(Exception):
    """harness-level failure (not a property violation)"""


# ---------------------------------------------------------------------------------------
# decision hook for data dependent control flow (installed by context.py)
# ---------------------------------------------------------------------------------------
class _Hooks:
    decide_bool = None  # callable(Sym bool) -> bool
    decide_int = None  # callable(Sym real) -> int
    prune = None  # callable(cond Sym) -> True/False/None  (implied / refuted / unknown)
    floor_value = None  # callable(term Sym) -> int | None (value of floor(term) implied by the assumptions)


HOOKS = _Hooks()


class Sym:
    __slots__ = ("op", "args", "sort", "hid")
    __array_priority__ = 1000.0

    def __new__(cls, op, args, sort):
        key = (op, sort, args)
        s = _TABLE.get(key)
        if s is None:
            s = object.__new__(cls)
            s.op = op
            s.args = args
            s.sort = sort
            s.hid = _NEXT[0]
            _NEXT[0] += 1
            _TABLE[key] = s
        return s

    def __reduce__(self):
        raise TypeError("Sym is not picklable")

    def __hash__(self):
        return self.hid

    # ---- structure ------------------------------------------------------------------
    @property
    def is_const(self):
        return self.op == "c"

    @property
    def value(self):
        return self.args[0]

    def lin(self):
        """(dict atom->coeff, const)"""
        if self.op == "c":
            return {}, self.args[0]
        if self.op == "lin":
            return dict(self.args[0]), self.args[1]
        return {self: Fraction(1)}, Fraction(0)

    # ---- arithmetic -----------------------------------------------------------------
    def __add__(self, o):
        o = lift(o)
        if o is NotImplemented:
            return NotImplemented
        a, b = _real(self), _real(o)
        if a.op == "c" and b.op == "c":
            return const(a.args[0] + b.args[0])
        if a.op == "c" and a.args[0] == 0:
            return b
        if b.op == "c" and b.args[0] == 0:
            return a
        d, c = a.lin()
        d2, c2 = b.lin()
        for k, v in d2.items():
            nv = d.get(k, 0) + v
            if nv == 0:
                d.pop(k, None)
            else:
                d[k] = nv
        return mk_lin(d, c + c2)

    __radd__ = __add__

    def __neg__(self):
        return scale(_real(self), Fraction(-1))

    def __pos__(self):
        return self

    def __sub__(self, o):
        o = lift(o)
        if o is NotImplemented:
            return NotImplemented
        return self + (-o)

    def __rsub__(self, o):
        o = lift(o)
        if o is NotImplemented:
            return NotImplemented
        return o + (-self)

    def __mul__(self, o):
        o = lift(o)
        if o is NotImplemented:
            return NotImplemented
        a, b = self, o
        if a.sort == BOOL and b.sort == BOOL:
            return And(a, b)
        if a.sort == BOOL:
            return ite(a, b, ZERO)
        if b.sort == BOOL:
            return ite(b, a, ZERO)
        if a.op == "c":
            return scale(b, a.args[0])
        if b.op == "c":
            return scale(a, b.args[0])
        ca, a = _split_coeff(a)
        cb, b = _split_coeff(b)
        # the symbolic constant pi distributes over linear combinations (keeps k*pi/2 shifts visible)
        if a is PI and b.op == "lin":
            a, b = b, a
        if b is PI and a.op == "lin":
            d, c = a.lin()
            acc = scale(PI, c)
            for at, k in d.items():
                acc = acc + scale(at * PI, k)
            return scale(acc, ca * cb)
        if a.hid > b.hid:
            a, b = b, a
        return scale(Sym("mul", (a, b), REAL), ca * cb)

    __rmul__ = __mul__

    def __truediv__(self, o):
        o = lift(o)
        if o is NotImplemented:
            return NotImplemented
        o = _real(o)
        if o.op == "c":
            if o.args[0] == 0:
                raise ZeroDivisionError("symbolic division by constant zero")
            return scale(_real(self), 1 / o.args[0])
        co, o2 = _split_coeff(o)
        return (self * Sym("inv", (o2,), REAL)) * const(1 / co)

    def __rtruediv__(self, o):
        o = lift(o)
        if o is NotImplemented:
            return NotImplemented
        return o / self

    def __floordiv__(self, o):
        return floor(self / o)

    def __rfloordiv__(self, o):
        return floor(lift(o) / self)

    def __pow__(self, n):
        if isinstance(n, Sym):
            if n.op != "c":
                raise SymError("symbolic exponent")
            n = n.args[0]
        if isinstance(n, (float, np.floating)):
            if float(n) == 0.5:
                return sqrt(self)
            if float(n) != int(n):
                raise SymError(f"unsupported exponent {n}")
            n = int(n)
        if isinstance(n, Fraction):
            if n == Fraction(1, 2):
                return sqrt(self)
            if n.denominator != 1:
                raise SymError(f"unsupported exponent {n}")
            n = int(n)
        n = int(n)
        if n == 0:
            return ONE
        if n < 0:
            return ONE / (self ** (-n))
        r = self
        for _ in range(n - 1):
            r = r * self
        return r

    def __rpow__(self, o):
        raise SymError("symbolic exponent")

    def __abs__(self):
        return sabs(self)

    # numpy object loops call these
    def fabs(self):
        return sabs(self)

    def sqrt(self):
        return sqrt(self)

    def cos(self):
        return app("cos", self)

    def sin(self):
        return app("sin", self)

    def exp(self):
        return app("exp", self)

    def log(self):
        return app("log", self)

    def floor(self):
        return floor(self)

    def rint(self):
        if self.op == "c":
            return const(Fraction(round(self.args[0])))
        raise SymError("rint of a symbolic value")

    def conjugate(self):
        return self

    # ---- comparisons ----------------------------------------------------------------
    def __lt__(self, o):
        return _cmp("lt", self, lift(o))

    def __le__(self, o):
        return _cmp("le", self, lift(o))

    def __gt__(self, o):
        return _cmp("lt", lift(o), self)

    def __ge__(self, o):
        return _cmp("le", lift(o), self)

    def __eq__(self, o):
        o = lift(o)
        if o is NotImplemented:
            return NotImplemented
        return _cmp("eq", self, o)

    def __ne__(self, o):
        o = lift(o)
        if o is NotImplemented:
            return NotImplemented
        return Not(_cmp("eq", self, o))

    def __and__(self, o):
        return And(self, lift(o))

    __rand__ = __and__

    def __or__(self, o):
        return Or(self, lift(o))

    __ror__ = __or__

    def __invert__(self):
        return Not(self)

    def __array_function__(self, func, types, args, kwargs):
        # numpy functions applied to symbolic SCALARS (np.isclose(t_flow, t_body), np.allclose, np.amax ...)
        from . import symarray

        h = symarray._FUNCS.get(func)
        if h is not None:
            return h(*args, **kwargs)
        return func._implementation(*args, **kwargs)

    # ---- concretisation -------------------------------------------------------------
    def __bool__(self):
        if self.op == "c":
            return bool(self.args[0])
        if HOOKS.decide_bool is None:
            raise SymError(f"data-dependent branch on {self!r} outside a path context")
        if self.sort != BOOL:
            # Python's truth value of a number: x != 0  (`if not np.amax(v): ...`)
            return HOOKS.decide_bool(Not(_cmp("eq", self, ZERO)))
        return HOOKS.decide_bool(self)

    def __int__(self):
        if self.op == "c":
            v = self.args[0]
            return int(v) if v >= 0 or v.denominator == 1 else -int(-v)
        if HOOKS.decide_int is None:
            raise SymError(f"int() of symbolic {self!r} outside a path context")
        return HOOKS.decide_int(self)

    __index__ = __int__

    # math.floor / math.ceil / math.trunc / round of a symbolic real: an integer decided per path
    def __floor__(self):
        return int(floor(self))

    def __ceil__(self):
        return -int(floor(-self))

    def __trunc__(self):
        return int(self)

    def __float__(self):
        if self.op == "c":
            return float(self.args[0])
        raise SymError(f"float() of symbolic {self!r}")

    def __repr__(self):
        return "Sym<" + show(self, 6) + ">"


def show(s, depth=4):
    if s.op == "c":
        v = s.args[0]
        if isinstance(v, Fraction) and v.denominator > 10**6:
            return f"{float(v):.17g}"
        return str(v)
    if s.op == "v":
        return s.args[0]
    if depth <= 0:
        return f"#{s.hid}"
    if s.op == "lin":
        parts = [f"{'' if c == 1 else str(c) + '*'}{show(a, depth - 1)}" for a, c in s.args[0][:6]]
        if len(s.args[0]) > 6:
            parts.append(f"...{len(s.args[0])} terms")
        if s.args[1] != 0:
            parts.append(str(s.args[1]))
        return "(" + " + ".join(parts) + ")"
    if s.op == "app":
        return f"{s.args[0]}(" + ", ".join(show(a, depth - 1) for a in s.args[1:]) + ")"
    return f"{s.op}(" + ", ".join(show(a, depth - 1) if isinstance(a, Sym) else str(a) for a in s.args) + ")"


# ---------------------------------------------------------------------------------------
# constructors
# ---------------------------------------------------------------------------------------
def const(v) -> Sym:
    if isinstance(v, bool):
        return TRUE if v else FALSE
    if not isinstance(v, Fraction):
        v = Fraction(v)
    return Sym("c", (v,), REAL)


def var(name: str, sort=REAL) -> Sym:
    return Sym("v", (name,), sort)


NONZERO: set = set()
TRUE = Sym("c", (True,), BOOL)
FALSE = Sym("c", (False,), BOOL)
ZERO = const(0)
ONE = const(1)
PI = var(PI_NAME)


def lift(x):
    if isinstance(x, Sym):
        return x
    if isinstance(x, (bool, np.bool_)):
        return TRUE if x else FALSE
    if isinstance(x, (int, np.integer)):
        return const(Fraction(int(x)))
    if isinstance(x, Fraction):
        return const(x)
    if isinstance(x, (float, np.floating)):
        r = read_float(x)
        if isinstance(r, tuple):
            if r[0] == "pi":
                return scale(PI, r[1])
            return scale(Sym("inv", (PI,), REAL), r[1])
        return const(r)
    if isinstance(x, np.ndarray) and x.ndim == 0:
        return lift(x[()])
    return NotImplemented


def _real(s: Sym) -> Sym:
    if s.sort == BOOL:
        return ite(s, ONE, ZERO)
    return s


def mk_lin(d: dict, c: Fraction) -> Sym:
    if not d:
        return const(c)
    if len(d) == 1 and c == 0:
        ((a, k),) = d.items()
        if k == 1:
            return a
    items = tuple(sorted(d.items(), key=lambda t: t[0].hid))
    return Sym("lin", (items, c), REAL)


def scale(s: Sym, k: Fraction) -> Sym:
    s = _real(s)
    if k == 1:
        return s
    if k == 0:
        return ZERO
    if s.op == "c":
        return const(s.args[0] * k)
    d, c = s.lin()
    return mk_lin({a: v * k for a, v in d.items()}, c * k)


def _split_coeff(s: Sym):
    """s = k * s' with s' normalised: a single atom, or a linear combination whose leading (lowest-id atom) coefficient is +1.
    Pulling the scalar out of products makes u*(w + p c) and u*(-w - p c) share one product atom."""
    if s.op == "lin":
        if s.args[1] == 0 and len(s.args[0]) == 1:
            a, k = s.args[0][0]
            return k, a
        k = s.args[0][0][1]  # items are sorted by atom id
        if k != 1:
            return k, scale(s, 1 / k)
    return Fraction(1), s


def _cmp(op, a, b):
    if a is NotImplemented or b is NotImplemented:
        return NotImplemented
    if a.sort == BOOL and b.sort == BOOL and op == "eq":
        return Or(And(a, b), And(Not(a), Not(b)))
    a, b = _real(a), _real(b)
    if a.op == "c" and b.op == "c":
        x, y = a.args[0], b.args[0]
        return TRUE if {"lt": x < y, "le": x <= y, "eq": x == y}[op] else FALSE
    if a is b:
        return FALSE if op == "lt" else TRUE
    # canonical form: compare p with 0 where p = (b - a) scaled to leading coefficient +1
    # (a < b  <=>  0 < b - a); halves the number of distinct atoms for mirrored conditions
    d = b - a
    if d.op == "c":
        x = d.args[0]
        return TRUE if {"lt": 0 < x, "le": 0 <= x, "eq": x == 0}[op] else FALSE
    dd, c0 = d.lin()
    lead_atom = min(dd, key=lambda t: t.hid)
    lead = dd[lead_atom]
    pn = scale(d, 1 / abs(lead))
    if op == "le" and (pn if lead > 0 else -pn).hid in NONZERO:
        op = "lt"  # p != 0 is among the hypotheses: 0 <= p  <=>  0 < p
    if op == "eq":
        r = Sym("eq", ((pn if lead > 0 else -pn), ZERO), BOOL)
    elif lead > 0:
        r = Sym(op, (ZERO, pn), BOOL)
    else:
        r = Sym(op, (-pn, ZERO), BOOL)
    if HOOKS.prune is not None:
        p = HOOKS.prune(r)
        if p is True:
            return TRUE
        if p is False:
            return FALSE
    return r


def And(*xs):
    out = []
    for x in xs:
        x = lift(x)
        if x is FALSE:
            return FALSE
        if x is TRUE:
            continue
        if x.op == "and":
            out.extend(x.args)
        else:
            out.append(x)
    if not out:
        return TRUE
    if len(out) == 1:
        return out[0]
    return Sym("and", tuple(out), BOOL)


def Or(*xs):
    out = []
    for x in xs:
        x = lift(x)
        if x is TRUE:
            return TRUE
        if x is FALSE:
            continue
        if x.op == "or":
            out.extend(x.args)
        else:
            out.append(x)
    if not out:
        return FALSE
    if len(out) == 1:
        return out[0]
    return Sym("or", tuple(out), BOOL)


def Not(x):
    x = lift(x)
    if x is TRUE:
        return FALSE
    if x is FALSE:
        return TRUE
    if x.op == "not":
        return x.args[0]
    return Sym("not", (x,), BOOL)


def Implies(a, b):
    return Or(Not(a), b)


def ite(c, a, b):
    c, a, b = lift(c), lift(a), lift(b)
    if c is TRUE:
        return a
    if c is FALSE:
        return b
    if a is b:
        return a
    if a.sort == BOOL and b.sort == BOOL:
        return Or(And(c, a), And(Not(c), b))
    a, b = _real(a), _real(b)
    # polarity: p < 0 is the negation of 0 < p for terms the harness has assumed non-zero (NONZERO holds their ids and the
    # assumption p != 0 is among the hypotheses of every query): ite(p<0, a, b) = ite(0<p, b, a)
    if c.op == "lt" and c.args[1] is ZERO and c.args[0].hid in NONZERO:
        c = Sym("lt", (ZERO, c.args[0]), BOOL)
        a, b = b, a
    # pull a common scalar out: ite(c, k*a', k*b') = k * ite(c, a', b') with a' having leading coefficient +1
    # (so that ite(c, X, Y) and ite(c, -X, -Y) share one atom)
    k = Fraction(1)
    for t in (a, b):
        if t.op == "lin":
            k = t.args[0][0][1]
            break
        if t.op == "c" and t.args[0] != 0 and (a.op == "c" and b.op == "c"):
            break
    if k != 1:
        return scale(Sym("ite", (c, scale(a, 1 / k), scale(b, 1 / k)), REAL), k)
    return Sym("ite", (c, a, b), REAL)


def sabs(a):
    a = _real(lift(a))
    if a.op == "c":
        return const(abs(a.args[0]))
    if a.op == "abs":
        return a
    k, at = _split_coeff(a)
    if at is not a:
        return scale(sabs(at), abs(k))
    r = Sym("abs", (a,), REAL)
    if HOOKS.prune is not None:
        p = HOOKS.prune(Sym("le", (ZERO, a), BOOL))
        if p is True:
            return a
        p = HOOKS.prune(Sym("le", (a, ZERO), BOOL))
        if p is True:
            return -a
    return r


def floor(a):
    a = _real(lift(a))
    if a.op == "c":
        return const(Fraction(math.floor(a.args[0])))
    if a.op == "floor":
        return a
    if HOOKS.floor_value is not None:
        n = HOOKS.floor_value(a)
        if n is not None:
            return const(Fraction(n))
    return Sym("floor", (a,), REAL)


def sqrt(a):
    a = _real(lift(a))
    if a.op == "c":
        v = a.args[0]
        if v < 0:
            raise SymError("sqrt of negative constant")
        n, d = v.numerator, v.denominator
        rn, rd = math.isqrt(n), math.isqrt(d)
        if rn * rn == n and rd * rd == d:
            return const(Fraction(rn, rd))
        return lift(math.sqrt(float(v)))
    return Sym("app", ("sqrt", a), REAL)


_LIBM = {"sin": math.sin, "cos": math.cos, "exp": math.exp, "log": math.log}


def app(fname, a):
    a = _real(lift(a))
    if fname == "sqrt":
        return sqrt(a)
    if a.op == "c" and fname in _LIBM:
        return lift(_LIBM[fname](float(a.args[0])))
    dd, cc = a.lin()
    if fname in ("sin", "cos") and cc == 0 and len(dd) == 1 and PI in dd:
        q = dd[PI] * 2  # argument = q * pi/2
        if q.denominator == 1:
            k = int(q) % 4
            return const({"cos": (1, 0, -1, 0), "sin": (0, 1, 0, -1)}[fname][k])
        # other concrete multiples of pi: a number (what libm returns for the double the code would form)
        return lift(_LIBM[fname](float(dd[PI]) * math.pi))
    if fname in _LIBM and len(dd) == 1 and PI in dd:
        # q*pi + c with concrete q, c: a number
        return lift(_LIBM[fname](float(dd[PI]) * math.pi + float(cc)))
    return Sym("app", (fname, a), REAL)


def smin(a, b):
    a, b = lift(a), lift(b)
    return ite(a <= b, a, b)


def smax(a, b):
    a, b = lift(a), lift(b)
    return ite(a >= b, a, b)


# ---------------------------------------------------------------------------------------
# traversal utilities
# ---------------------------------------------------------------------------------------
def children(s: Sym):
    op = s.op
    if op in ("c", "v"):
        return ()
    if op == "lin":
        return tuple(a for a, _ in s.args[0])
    if op == "app":
        return s.args[1:]
    return s.args


def topo(roots):
    """post-order list of all nodes reachable from roots (iterative)"""
    seen = set()
    order = []
    stack = [(r, False) for r in roots]
    while stack:
        n, done = stack.pop()
        if done:
            order.append(n)
            continue
        if n.hid in seen:
            continue
        seen.add(n.hid)
        stack.append((n, True))
        for ch in children(n):
            if ch.hid not in seen:
                stack.append((ch, False))
    return order


def free_vars(roots):
    return {n for n in topo(roots) if n.op == "v"}


def evaluate(roots, env: dict, funcs=None):
    """float evaluation; env maps var Sym -> float.  Returns dict hid->value for all nodes."""
    val = {}
    for n in topo(roots):
        op = n.op
        if op == "c":
            v = n.args[0]
            val[n.hid] = bool(v) if n.sort == BOOL else float(v)
        elif op == "v":
            if n.args[0] == PI_NAME:
                val[n.hid] = math.pi
            else:
                val[n.hid] = env[n]
        elif op == "lin":
            val[n.hid] = math.fsum([float(c) * val[a.hid] for a, c in n.args[0]] + [float(n.args[1])])
        elif op == "mul":
            val[n.hid] = val[n.args[0].hid] * val[n.args[1].hid]
        elif op == "inv":
            d = val[n.args[0].hid]
            val[n.hid] = 1.0 / d if d != 0 else math.inf
        elif op == "ite":
            val[n.hid] = val[n.args[1].hid] if val[n.args[0].hid] else val[n.args[2].hid]
        elif op == "abs":
            val[n.hid] = abs(val[n.args[0].hid])
        elif op == "floor":
            val[n.hid] = float(math.floor(val[n.args[0].hid]))
        elif op == "app":
            f = n.args[0]
            x = val[n.args[1].hid]
            if funcs and f in funcs:
                val[n.hid] = funcs[f](x)
            elif f == "sqrt":
                val[n.hid] = math.sqrt(x) if x >= 0 else math.nan
            else:
                val[n.hid] = _LIBM[f](x)
        elif op == "lt":
            val[n.hid] = val[n.args[0].hid] < val[n.args[1].hid]
        elif op == "le":
            val[n.hid] = val[n.args[0].hid] <= val[n.args[1].hid]
        elif op == "eq":
            val[n.hid] = val[n.args[0].hid] == val[n.args[1].hid]
        elif op == "and":
            val[n.hid] = all(val[a.hid] for a in n.args)
        elif op == "or":
            val[n.hid] = any(val[a.hid] for a in n.args)
        elif op == "not":
            val[n.hid] = not val[n.args[0].hid]
        else:
            raise SymError(f"evaluate: unknown op {op}")
    return val


def evaluate_exact(roots, env: dict):
    """Fraction evaluation (no transcendental apps except on values where they are exact)."""
    val = {}
    for n in topo(roots):
        op = n.op
        if op == "c":
            val[n.hid] = n.args[0]
        elif op == "v":
            val[n.hid] = env[n]
        elif op == "lin":
            val[n.hid] = sum((c * val[a.hid] for a, c in n.args[0]), n.args[1])
        elif op == "mul":
            val[n.hid] = val[n.args[0].hid] * val[n.args[1].hid]
        elif op == "inv":
            val[n.hid] = 1 / val[n.args[0].hid]
        elif op == "ite":
            val[n.hid] = val[n.args[1].hid] if val[n.args[0].hid] else val[n.args[2].hid]
        elif op == "abs":
            val[n.hid] = abs(val[n.args[0].hid])
        elif op == "floor":
            val[n.hid] = Fraction(math.floor(val[n.args[0].hid]))
        elif op == "lt":
            val[n.hid] = val[n.args[0].hid] < val[n.args[1].hid]
        elif op == "le":
            val[n.hid] = val[n.args[0].hid] <= val[n.args[1].hid]
        elif op == "eq":
            val[n.hid] = val[n.args[0].hid] == val[n.args[1].hid]
        elif op == "and":
            val[n.hid] = all(val[a.hid] for a in n.args)
        elif op == "or":
            val[n.hid] = any(val[a.hid] for a in n.args)
        elif op == "not":
            val[n.hid] = not val[n.args[0].hid]
        else:
            raise SymError(f"evaluate_exact: unsupported op {op}")
    return val


def substitute(roots, mapping: dict):
    """Replace nodes (keys: Sym) by other Syms, rebuilding through the smart constructors."""
    new = {}
    for n in topo(roots):
        if n in mapping:
            new[n.hid] = mapping[n]
            continue
        op = n.op
        if op in ("c", "v"):
            new[n.hid] = n
        elif op == "lin":
            acc = const(n.args[1])
            for a, c in n.args[0]:
                acc = acc + scale(new[a.hid], c)
            new[n.hid] = acc
        elif op == "mul":
            new[n.hid] = new[n.args[0].hid] * new[n.args[1].hid]
        elif op == "inv":
            new[n.hid] = ONE / new[n.args[0].hid]
        elif op == "ite":
            new[n.hid] = ite(new[n.args[0].hid], new[n.args[1].hid], new[n.args[2].hid])
        elif op == "abs":
            new[n.hid] = sabs(new[n.args[0].hid])
        elif op == "floor":
            new[n.hid] = floor(new[n.args[0].hid])
        elif op == "app":
            new[n.hid] = app(n.args[0], new[n.args[1].hid])
        elif op in ("lt", "le", "eq"):
            new[n.hid] = _cmp(op, new[n.args[0].hid], new[n.args[1].hid])
        elif op == "and":
            new[n.hid] = And(*[new[a.hid] for a in n.args])
        elif op == "or":
            new[n.hid] = Or(*[new[a.hid] for a in n.args])
        elif op == "not":
            new[n.hid] = Not(new[n.args[0].hid])
        else:
            raise SymError(op)
    return [new[r.hid] for r in roots]


def depends_on(root: Sym, vars_: set) -> bool:
    return any(n in vars_ for n in topo([root]) if n.op == "v")


# ---------------------------------------------------------------------------------------
# Sym (scalar) op ndarray  ->  elementwise symbolic ufunc (numpy defers to us by priority)
# ---------------------------------------------------------------------------------------
def _wrap_array_ops():
    table = [
        ("__add__", np.add, False), ("__radd__", np.add, True),
        ("__sub__", np.subtract, False), ("__rsub__", np.subtract, True),
        ("__mul__", np.multiply, False), ("__rmul__", np.multiply, True),
        ("__truediv__", np.divide, False), ("__rtruediv__", np.divide, True),
        ("__floordiv__", np.floor_divide, False), ("__rfloordiv__", np.floor_divide, True),
        ("__lt__", np.less, False), ("__le__", np.less_equal, False),
        ("__gt__", np.greater, False), ("__ge__", np.greater_equal, False),
        ("__eq__", np.equal, False), ("__ne__", np.not_equal, False),
    ]

    def mk(orig, ufunc, swap):
        def m(self, o):
            if isinstance(o, np.ndarray) and o.ndim > 0:
                from .symarray import apply_ufunc

                return apply_ufunc(ufunc, o, self) if swap else apply_ufunc(ufunc, self, o)
            return orig(self, o)

        return m

    for name, ufunc, swap in table:
        setattr(Sym, name, mk(getattr(Sym, name), ufunc, swap))


_wrap_array_ops()
