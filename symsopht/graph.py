"""Object-graph walker: replace the work arrays of constructed SophT objects by symbolic arrays
(preserving view relationships) or, in numeric replay mode, fill them with model values.

Arrays are found by type in instance dicts, lists/tuples/dicts, bound methods and the closure cells
of every reachable function.  Every array must be classified by the harness' policy
(`fresh` -> arbitrary symbolic content, `const` -> exact value, `keep` -> left numeric); an
unclassified array is a harness error (DESIGN 11).
"""
from __future__ import annotations

import types

import numpy as np

from . import sym as S
from .symarray import SymArray, constant, fresh


class ComplexSym:
    """stand-in for a complex ndarray: .real/.imag are strided views of one (.., 2) symbolic array"""

    def __init__(self, reim):
        self.reim = reim
        self.real = reim[..., 0]
        self.imag = reim[..., 1]
        self.shape = reim.shape[:-1]
        self.dtype = np.dtype(object)

    def __repr__(self):
        return f"<ComplexSym {self.shape}>"


def _typed_root(a):
    r = a
    while isinstance(r.base, np.ndarray) and r.base.dtype == r.dtype:
        r = r.base
    return r


UNCLASSIFIED: list = []  # paths of arrays kept concrete because no harness policy names them (reported in the evidence)


class Found:
    __slots__ = ("path", "arr", "setter")

    def __init__(self, path, arr, setter):
        self.path, self.arr, self.setter = path, arr, setter


def find_arrays(root_obj, name="obj", max_depth=6, skip_modules=("numpy", "pystencils", "pyfftw", "numba", "sympy", "logging", "z3", "elastica")):
    found = []
    seen = set()

    def visit(o, path, depth, setter):
        if isinstance(o, np.ndarray):
            if o.dtype.kind in "fciu" and o.size > 0:
                found.append(Found(path, o, setter))
            return
        if depth > max_depth or o is None or isinstance(o, (str, bytes, int, float, bool, complex, type, types.ModuleType, S.Sym)):
            return
        if id(o) in seen:
            return
        seen.add(id(o))
        mod = getattr(type(o), "__module__", "") or ""
        if isinstance(o, dict):
            for k, v in list(o.items()):
                visit(v, f"{path}[{k!r}]", depth + 1, (lambda val, o=o, k=k: o.__setitem__(k, val)))
            return
        if isinstance(o, list):
            for i, v in enumerate(list(o)):
                visit(v, f"{path}[{i}]", depth + 1, (lambda val, o=o, i=i: o.__setitem__(i, val)))
            return
        if isinstance(o, tuple):
            for i, v in enumerate(o):
                visit(v, f"{path}[{i}]", depth + 1, None)
            return
        if isinstance(o, types.MethodType):
            visit(o.__func__, path + ".__func__", depth, None)
            return
        if isinstance(o, types.FunctionType):
            if o.__closure__:
                for cname, cell in zip(o.__code__.co_freevars, o.__closure__):
                    try:
                        v = cell.cell_contents
                    except ValueError:
                        continue

                    def set_cell(val, cell=cell):
                        cell.cell_contents = val

                    visit(v, f"{path}<{cname}>", depth + 1, set_cell)
            return
        if any(mod == m or mod.startswith(m + ".") for m in skip_modules):
            return
        d = getattr(o, "__dict__", None)
        if isinstance(d, dict):
            for k, v in list(d.items()):
                visit(v, f"{path}.{k}", depth + 1, (lambda val, o=o, k=k: setattr(o, k, val)))

    visit(root_obj, name, 0, None)
    return found


def symbolise(root_obj, policy, name="obj", prefix=""):
    """policy(path, arr) -> ('fresh', varprefix) | ('const', None) | ('keep', None).
    Returns {path: new array}; arrays that are views of one typed root stay views of one symbolic root."""
    found = find_arrays(root_obj, name)
    groups = {}
    for f in found:
        r = _typed_root(f.arr)
        groups.setdefault(id(r), (r, []))[1].append(f)
    out = {}
    for rid, (root, items) in groups.items():
        kinds = {}
        for f in items:
            k = policy(f.path, f.arr)
            if k is None:
                # an array the harness does not know (e.g. a cache added by a refactor): keep its concrete content -
                # the state the real constructor produced - and report it (no over-approximation, hence no false alarm)
                k = ("follow", None)  # shares the fate of the classified views of the same buffer, if any
                if f.path not in UNCLASSIFIED:
                    UNCLASSIFIED.append(f.path)
            kinds[f.path] = k
        ks = {k[0] for k in kinds.values()} - {"follow"}
        if ks == {"keep"} or not ks:
            continue
        if "keep" in ks:
            raise S.SymError(f"views of one buffer classified inconsistently: {kinds}")
        if len(ks) > 1:
            # views of one root with mixed fresh/const: treat the whole root as fresh (more general)
            kind = ("fresh", next(k[1] for k in kinds.values() if k[0] == "fresh"))
        else:
            kind = next(k for k in kinds.values() if k[0] != "follow")
        iscomplex = root.dtype.kind == "c"
        isz = root.itemsize
        if not root.flags.c_contiguous and not root.flags.f_contiguous:
            raise S.SymError(f"typed root of {items[0].path} is not contiguous")
        flat_len = root.size
        if kind[0] == "fresh":
            vp = prefix + kind[1]
            if iscomplex:
                sroot = fresh((flat_len, 2), vp)
            else:
                sroot = fresh((flat_len,), vp)
        else:
            flatvals = np.lib.stride_tricks.as_strided(root, shape=(flat_len,), strides=(isz,))
            if iscomplex:
                sroot = SymArray((flat_len, 2))
                sroot[:, 0] = constant(flatvals.real.copy())
                sroot[:, 1] = constant(flatvals.imag.copy())
            else:
                sroot = constant(flatvals.copy())
        base_addr = root.__array_interface__["data"][0]
        for f in items:
            a = f.arr
            off = (a.__array_interface__["data"][0] - base_addr) // isz
            estr = tuple(s // isz for s in a.strides)
            if iscomplex:
                v = np.lib.stride_tricks.as_strided(sroot[off:], shape=(*a.shape, 2), strides=tuple(s * 16 for s in estr) + (8,))
                new = ComplexSym(v.view(SymArray))
            else:
                v = np.lib.stride_tricks.as_strided(sroot[off:], shape=a.shape, strides=tuple(s * 8 for s in estr))
                new = v.view(SymArray)
            if f.setter is None:
                raise S.SymError(f"array {f.path} sits in an immutable container")
            f.setter(new)
            out[f.path] = new
    return out


def fill_numeric(root_obj, policy, values, name="obj", prefix="", default=0.0):
    """numeric replay: arrays classified 'fresh' get the model's values (variables are named after the
    flat index of the typed root, exactly as in symbolise)"""
    found = find_arrays(root_obj, name)
    groups = {}
    for f in found:
        r = _typed_root(f.arr)
        groups.setdefault(id(r), (r, []))[1].append(f)
    for rid, (root, items) in groups.items():
        kinds = [policy(f.path, f.arr) for f in items]
        fk = [k for k in kinds if k and k[0] == "fresh"]
        if not fk:
            continue
        vp = prefix + fk[0][1]
        flat = np.lib.stride_tricks.as_strided(root, shape=(root.size,), strides=(root.itemsize,))
        if root.dtype.kind == "c":
            for i in range(root.size):
                re = values(f"{vp}[{i},0]", default)
                im = values(f"{vp}[{i},1]", default)
                flat[i] = complex(re, im)
        else:
            for i in range(root.size):
                flat[i] = values(f"{vp}[{i}]", default)
