"""Size-symbolic analysis of the pystencils backend IR with z3 (QF_LIA).

Extracts from a kernel's lowered AST: the loop nest (counter, lower/upper bound as linear integer
expressions in the `_size_<field>_<d>` symbols) and every memory access (field, read/write, index
expression per dimension, recovered from the address arithmetic `sum_d index_d * _stride_f_d`).
"""
from __future__ import annotations

import z3
from pystencils.backend.ast import expressions as E
from pystencils.backend.ast import structural as St
from pystencils.codegen.properties import FieldBasePtr, FieldShape, FieldStride


class IRInfo:
    def __init__(self, handle):
        self.handle = handle
        k = handle.kernel
        self.ptr_field = {}
        self.stride_sym = {}  # name -> (field, dim)
        self.size_sym = {}
        self.fields = {}
        for p in k.parameters:
            for pr in p.properties:
                self.fields[pr.field.name] = pr.field
                if isinstance(pr, FieldBasePtr):
                    self.ptr_field[p.name] = pr.field.name
                elif isinstance(pr, FieldStride):
                    self.stride_sym[p.name] = (pr.field.name, pr.coordinate)
                elif isinstance(pr, FieldShape):
                    self.size_sym[p.name] = (pr.field.name, pr.coordinate)
        self.loops = []  # (ctr, lo, hi) z3 ints
        self.accesses = []  # (field, is_write, {dim: z3 int expr})
        self.pragmas = []
        self.zvars = {}
        self._walk(k.body)

    def zint(self, name):
        v = self.zvars.get(name)
        if v is None:
            v = self.zvars[name] = z3.Int(name)
        return v

    def size(self, d):
        """the size variable the loops use for dimension d (all fields share spatial shape)"""
        for name, (f, c) in self.size_sym.items():
            if c == d:
                return self.zint(name)
        return None

    # -------------------------------------------------------------------------------
    def _int_expr(self, n):
        t = type(n)
        if t is E.PsSymbolExpr:
            return self.zint(n.symbol.name)
        if t is E.PsConstantExpr:
            return z3.IntVal(int(n.constant.value))
        if t is E.PsAdd:
            return self._int_expr(n.operand1) + self._int_expr(n.operand2)
        if t is E.PsSub:
            return self._int_expr(n.operand1) - self._int_expr(n.operand2)
        if t is E.PsMul:
            return self._int_expr(n.operand1) * self._int_expr(n.operand2)
        if t is E.PsNeg:
            return -self._int_expr(n.operand)
        if t is E.PsCast:
            return self._int_expr(n.operand)
        raise ValueError(f"non-affine index node {t.__name__}")

    def _split_offset(self, n):
        """offset = sum_d idx_d * stride_d  ->  {d: idx_d}"""
        terms = []

        def flat(x):
            if type(x) is E.PsAdd:
                flat(x.operand1)
                flat(x.operand2)
            else:
                terms.append(x)

        flat(n)
        out = {}
        fld = None
        for t in terms:
            if type(t) is E.PsSymbolExpr and t.symbol.name in self.stride_sym:
                f, d = self.stride_sym[t.symbol.name]
                idx = z3.IntVal(1)
            elif type(t) is E.PsMul:
                a, b = t.operand1, t.operand2
                if type(b) is E.PsSymbolExpr and b.symbol.name in self.stride_sym:
                    f, d = self.stride_sym[b.symbol.name]
                    idx = self._int_expr(a)
                elif type(a) is E.PsSymbolExpr and a.symbol.name in self.stride_sym:
                    f, d = self.stride_sym[a.symbol.name]
                    idx = self._int_expr(b)
                else:
                    raise ValueError("address term without a stride symbol")
            else:
                raise ValueError(f"address term {type(t).__name__}")
            fld = fld or f
            if f != fld or d in out:
                raise ValueError("mixed strides in one access")
            out[d] = idx
        return out

    def _expr_accesses(self, n, write=False):
        if type(n) is E.PsMemAcc:
            fname = self.ptr_field[n.pointer.symbol.name]
            self.accesses.append((fname, write, self._split_offset(n.offset)))
            return
        for c in n.children:
            if isinstance(c, E.PsExpression):
                self._expr_accesses(c)

    def _walk(self, node):
        t = type(node)
        if t is St.PsBlock:
            for c in node.statements:
                self._walk(c)
        elif t is St.PsPragma:
            self.pragmas.append(node.text)
        elif t is St.PsLoop:
            self.loops.append((node.counter.symbol.name, self._int_expr(node.start), self._int_expr(node.stop), int(node.step.constant.value)))
            self._walk(node.body)
        elif t is St.PsAssignment:
            if type(node.lhs) is E.PsMemAcc:
                self._expr_accesses(node.lhs, write=True)
            self._expr_accesses(node.rhs)
        elif t is St.PsDeclaration:
            self._expr_accesses(node.rhs)
        elif t is St.PsComment:
            pass
        else:
            raise ValueError(f"IR statement {t.__name__}")

    # -------------------------------------------------------------------------------
    def box(self, suffix=""):
        """(counter vars, constraint lo<=c<hi) with counters renamed by suffix"""
        sub = []
        cons = []
        for name, lo, hi, step in self.loops:
            c = self.zint(name)
            c2 = z3.Int(name + suffix) if suffix else c
            sub.append((c, c2))
            cons.append(z3.And(c2 >= lo, c2 < hi))
        return sub, z3.And(*cons) if cons else z3.BoolVal(True)

    def frontend_reach(self):
        """max |offset| over all field accesses of the sympy assignments (stencil reach)"""
        import pystencils as ps

        g = 0
        for a in self.handle.assignments:
            for acc in a.atoms(ps.Field.Access):
                for o in acc.offsets:
                    g = max(g, abs(int(o)))
        return g
