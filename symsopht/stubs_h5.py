"""In-memory stand-in for h5py.File (contract: datasets/attributes are stored and returned
faithfully: create_dataset snapshots the array it is given, indexing returns its content)."""
from __future__ import annotations

import numpy as np

FILES: dict = {}


class Dataset:
    def __init__(self, data):
        self.data = np.array(data, copy=True) if not isinstance(data, np.ndarray) or data.dtype != object else data.copy()

    def __getitem__(self, idx):
        r = self.data[idx]
        return r.copy() if isinstance(r, np.ndarray) else r

    @property
    def shape(self):
        return self.data.shape


class PresenceKey:
    """key of the `visit` listing whose membership test can be made symbolic (a Sym bool)"""

    def __init__(self, name, present):
        self.name = name
        self.present = present

    def __eq__(self, other):
        if isinstance(other, str):
            if other != self.name:
                return False
            return self.present
        return NotImplemented

    def __hash__(self):
        return hash(self.name)

    def __repr__(self):
        return f"<key {self.name}>"


class Group:
    def __init__(self, path=""):
        self.path = path
        self.children: dict = {}
        self.attrs: dict = {}

    def create_group(self, name):
        g = Group(f"{self.path}/{name}".lstrip("/"))
        self.children[name] = g
        return g

    def create_dataset(self, name, data=None):
        d = Dataset(data)
        self.children[name] = d
        return d

    def __getitem__(self, name):
        node = self
        for part in name.split("/"):
            node = node.children[part]
        return node

    def __contains__(self, name):
        try:
            self[name]
            return True
        except KeyError:
            return False

    def _walk(self, prefix, fn):
        for name, ch in self.children.items():
            p = f"{prefix}/{name}".lstrip("/")
            fn(p, ch)
            if isinstance(ch, Group):
                ch._walk(p, fn)


class File(Group):
    presence = None  # optional callable(path) -> Sym bool | True

    def __init__(self, name, mode="r"):
        name = str(name)
        if mode == "w":
            super().__init__("")
            FILES[name] = self
        else:
            if name not in FILES:
                raise FileNotFoundError(name)
            src = FILES[name]
            self.path, self.children, self.attrs = src.path, src.children, src.attrs

    def __enter__(self):
        return self

    def __exit__(self, *a):
        return False

    def visit(self, fn):
        def cb(p, node):
            pres = File.presence(p) if File.presence is not None else True
            fn(p if pres is True else PresenceKey(p, pres))

        self._walk("", cb)


class module:
    File = File
