"""In-memory stand-in for h5py.File (contract: datasets/attributes are stored and returned
faithfully: create_dataset snapshots the array it is given, indexing returns its content)."""
from __future__ import annotations

import numpy as np

FILES: dict = {}
SOURCE_IS_DOUBLE = [False]  # harness flag: the registered arrays are float64 (a dtype=float32 dataset then rounds)


def _round32(x):
    from . import sym as S

    x = S.lift(x)
    if x.op == "c":
        import numpy as np

        return S.lift(float(np.float32(float(x.args[0]))))
    return S.Sym("app", ("round_to_float32", x), S.REAL)


class Dataset:
    def __init__(self, data):
        self.data = np.array(data, copy=True) if not isinstance(data, np.ndarray) or data.dtype != object else data.copy()

    def __getitem__(self, idx):
        r = self.data[idx]
        return r.copy() if isinstance(r, np.ndarray) else r

    @property
    def shape(self):
        return self.data.shape


class PresenceKey:
    """key of the `visit` listing whose membership test can be made symbolic (a Sym bool)"""

    def __init__(self, name, present):
        self.name = name
        self.present = present

    def __eq__(self, other):
        if isinstance(other, str):
            if other != self.name:
                return False
            return self.present
        return NotImplemented

    def __hash__(self):
        return hash(self.name)

    def __repr__(self):
        return f"<key {self.name}>"


class Group:
    def __init__(self, path=""):
        self.path = path
        self.children: dict = {}
        self.attrs: dict = {}

    def create_group(self, name):
        g = Group(f"{self.path}/{name}".lstrip("/"))
        self.children[name] = g
        return g

    def create_dataset(self, name, data=None, dtype=None, **kw):
        if kw:
            raise TypeError(f"h5 stub: unsupported create_dataset arguments {sorted(kw)}")
        if dtype is not None and data is not None:
            import numpy as np

            arr = np.asarray(data)
            if np.dtype(dtype) == np.float32 and (SOURCE_IS_DOUBLE[0] or arr.dtype == np.float64):
                if arr.dtype == object:
                    data = np.frompyfunc(_round32, 1, 1)(arr)
                else:
                    data = arr.astype(np.float32)
            elif np.dtype(dtype) not in (np.dtype(np.float32), np.dtype(np.float64)):
                raise TypeError(f"h5 stub: dtype {dtype} not modelled")
        d = Dataset(data)
        self.children[name] = d
        return d

    def __getitem__(self, name):
        node = self
        for part in name.split("/"):
            node = node.children[part]
        return node

    def __contains__(self, name):
        try:
            self[name]
            return True
        except KeyError:
            return False

    def _walk(self, prefix, fn):
        for name, ch in self.children.items():
            p = f"{prefix}/{name}".lstrip("/")
            fn(p, ch)
            if isinstance(ch, Group):
                ch._walk(p, fn)


class File(Group):
    presence = None  # optional callable(path) -> Sym bool | True

    def __init__(self, name, mode="r"):
        name = str(name)
        if mode == "w":
            super().__init__("")
            FILES[name] = self
        else:
            if name not in FILES:
                raise FileNotFoundError(name)
            src = FILES[name]
            self.path, self.children, self.attrs = src.path, src.children, src.attrs

    def __enter__(self):
        return self

    def __exit__(self, *a):
        return False

    def visit(self, fn):
        def cb(p, node):
            pres = File.presence(p) if File.presence is not None else True
            fn(p if pres is True else PresenceKey(p, pres))

        self._walk("", cb)


class module:
    File = File
