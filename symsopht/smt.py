"""z3 back end: translation of Sym DAGs, queries with statistics, model extraction."""
from __future__ import annotations

import random
import time
from fractions import Fraction

import z3

from . import sym as S
from .sym import Sym

z3.set_param("model.completion", True)


class Stats:
    def __init__(self):
        self.queries = 0
        self.unsat = 0
        self.sat = 0
        self.unknown = 0
        self.time = 0.0
        self.by_tag: dict = {}
        self.max_vars = 0
        self.log: list = []

    def record(self, tag, res, dt, nvars):
        self.queries += 1
        setattr(self, res, getattr(self, res) + 1)
        self.time += dt
        self.max_vars = max(self.max_vars, nvars)
        t = self.by_tag.setdefault(tag, {"queries": 0, "unsat": 0, "sat": 0, "unknown": 0, "time_s": 0.0})
        t["queries"] += 1
        t[res] += 1
        t["time_s"] = round(t["time_s"] + dt, 4)

    def as_dict(self):
        return {
            "queries": self.queries,
            "unsat": self.unsat,
            "sat": self.sat,
            "unknown": self.unknown,
            "solver_time_s": round(self.time, 3),
            "max_free_vars_in_a_query": self.max_vars,
            "by_tag": self.by_tag,
        }


STATS = Stats()

_UF = {}


def _uf(name):
    f = _UF.get(name)
    if f is None:
        f = z3.Function(name, z3.RealSort(), z3.RealSort())
        _UF[name] = f
    return f


class Translator:
    def __init__(self):
        self.memo: dict = {}
        self.side: list = []  # axioms for apps encountered
        self.apps: list = []
        self.vars: dict = {}

    def __call__(self, root: Sym):
        memo = self.memo
        for n in S.topo([root]):
            if n.hid in memo:
                continue
            op = n.op
            if op == "c":
                v = n.args[0]
                if n.sort == S.BOOL:
                    e = z3.BoolVal(bool(v))
                else:
                    e = z3.RealVal(f"{v.numerator}/{v.denominator}") if v.denominator != 1 else z3.RealVal(v.numerator)
            elif op == "v":
                e = z3.Bool(n.args[0]) if n.sort == S.BOOL else z3.Real(n.args[0])
                self.vars[n] = e
                if n.args[0] == S.PI_NAME:
                    self.side.append(e > z3.RealVal("3.14159265358979323846"))
                    self.side.append(e < z3.RealVal("3.14159265358979323847"))
            elif op == "lin":
                terms = []
                for a, c in n.args[0]:
                    ae = memo[a.hid]
                    if c == 1:
                        terms.append(ae)
                    else:
                        terms.append(z3.RealVal(f"{c.numerator}/{c.denominator}") * ae)
                c0 = n.args[1]
                if c0 != 0:
                    terms.append(z3.RealVal(f"{c0.numerator}/{c0.denominator}"))
                e = z3.Sum(terms) if len(terms) > 1 else terms[0]
            elif op == "mul":
                e = memo[n.args[0].hid] * memo[n.args[1].hid]
            elif op == "inv":
                e = z3.RealVal(1) / memo[n.args[0].hid]
            elif op == "ite":
                e = z3.If(memo[n.args[0].hid], memo[n.args[1].hid], memo[n.args[2].hid])
            elif op == "abs":
                a = memo[n.args[0].hid]
                e = z3.If(a >= 0, a, -a)
            elif op == "floor":
                e = z3.ToReal(z3.ToInt(memo[n.args[0].hid]))
            elif op == "app":
                f, a = n.args[0], memo[n.args[1].hid]
                if f == "sqrt":
                    e = z3.Real(f"__sqrt_{n.hid}")
                    self.side.append(e >= 0)
                    self.side.append(z3.Implies(a >= 0, e * e == a))
                else:
                    # one real variable per distinct application node (hash-consing already identifies equal
                    # arguments); weaker than an uninterpreted function, hence sound for `unsat`, and keeps
                    # the query in pure QF_NRA so that nlsat applies
                    e = z3.Real(f"__{f}_{n.hid}")
                    if f in ("sin", "cos"):
                        self.side.append(e <= 1)
                        self.side.append(e >= -1)
                    if f == "sin":
                        pi = self.pi()
                        # sin t <= t (t >= 0), sin t >= t (t <= 0); reflections sin(pi - t) = sin t, sin(t + pi) = -sin t
                        self.side += [z3.Implies(a >= 0, e <= a), z3.Implies(a <= 0, e >= a),
                                      z3.Implies(pi - a >= 0, e <= pi - a), z3.Implies(a + pi >= 0, e >= -(a + pi)),
                                      z3.Implies(z3.And(a >= 0, a <= pi), e >= 0), z3.Implies(z3.And(a <= 0, a >= -pi), e <= 0)]
                        # 1-Lipschitz to the zeros at -pi, 0, pi
                        for z0 in (a, a - pi, a + pi):
                            az = z3.If(z0 >= 0, z0, -z0)
                            self.side += [e <= az, -e <= az]
                    if f == "exp":
                        self.side.append(e > 0)
                    if f == "round_to_float32":
                        # rounding to single precision: relative error at most 2^-24 (normal range); NOT the identity
                        self.side.append(z3.If(a >= 0, z3.And(e >= a * (1 - z3.RealVal(2) ** -24), e <= a * (1 + z3.RealVal(2) ** -24)),
                                               z3.And(e <= a * (1 - z3.RealVal(2) ** -24), e >= a * (1 + z3.RealVal(2) ** -24))))
                self.apps.append((n, e))
            elif op == "lt":
                e = memo[n.args[0].hid] < memo[n.args[1].hid]
            elif op == "le":
                e = memo[n.args[0].hid] <= memo[n.args[1].hid]
            elif op == "eq":
                e = memo[n.args[0].hid] == memo[n.args[1].hid]
            elif op == "and":
                e = z3.And(*[memo[a.hid] for a in n.args])
            elif op == "or":
                e = z3.Or(*[memo[a.hid] for a in n.args])
            elif op == "not":
                e = z3.Not(memo[n.args[0].hid])
            else:
                raise S.SymError(f"translate: {op}")
            memo[n.hid] = e
        self._trig_shift_axioms()
        return memo[root.hid]

    def pi(self):
        e = self.memo.get(S.PI.hid)
        if e is None:
            e = z3.Real(S.PI_NAME)
            self.memo[S.PI.hid] = e
            self.vars[S.PI] = e
            self.side.append(e > z3.RealVal("3.14159265358979323846"))
            self.side.append(e < z3.RealVal("3.14159265358979323847"))
        return e

    def _trig_shift_axioms(self):
        """instantiated axioms for pairs of sin/cos applications whose arguments differ by m*pi/2"""
        done = getattr(self, "_trig_done", 0)
        apps = [(n, e) for n, e in self.apps if n.args[0] in ("sin", "cos")]
        if len(apps) == done:
            return
        self._trig_done = len(apps)
        for i in range(len(apps)):
            ni, ei = apps[i]
            for j in range(i):
                nj, ej = apps[j]
                fi_, fj_ = ni.args[0], nj.args[0]
                if fi_ == fj_:
                    # 1-Lipschitz and parity instances for this pair
                    ai, aj = self.memo[ni.args[1].hid], self.memo[nj.args[1].hid]
                    dd_ = ai - aj
                    self.side.append(ei - ej <= z3.If(dd_ >= 0, dd_, -dd_))
                    self.side.append(ej - ei <= z3.If(dd_ >= 0, dd_, -dd_))
                    if (ni.args[1] + nj.args[1]) is S.ZERO:
                        self.side.append(ei == (-ej if fi_ == "sin" else ej))
                d = ni.args[1] - nj.args[1]
                if d.op == "c" and d.args[0] == 0:
                    m2 = 0
                elif d.lin()[1] == 0 and len(d.lin()[0]) == 1 and S.PI in d.lin()[0] and (d.lin()[0][S.PI] * 2).denominator == 1:
                    m2 = int(d.lin()[0][S.PI] * 2)  # difference = m2 * pi/2
                else:
                    continue
                fi, fj = ni.args[0], nj.args[0]
                k = m2 % 4
                # f_i(x + k*pi/2) in terms of sin x / cos x
                if fi == fj:
                    if k == 0:
                        self.side.append(ei == ej)
                    elif k == 2:
                        self.side.append(ei == -ej)
                else:
                    # cos(x + pi/2) = -sin x ; cos(x + 3pi/2) = sin x ; sin(x + pi/2) = cos x ; sin(x + 3pi/2) = -cos x
                    if fi == "cos" and k == 1:
                        self.side.append(ei == -ej)
                    elif fi == "cos" and k == 3:
                        self.side.append(ei == ej)
                    elif fi == "sin" and k == 1:
                        self.side.append(ei == ej)
                    elif fi == "sin" and k == 3:
                        self.side.append(ei == -ej)


def _val_to_fraction(v):
    if z3.is_rational_value(v):
        return Fraction(v.numerator_as_long(), v.denominator_as_long())
    if z3.is_algebraic_value(v):
        a = v.approx(30)
        return Fraction(a.numerator_as_long(), a.denominator_as_long())
    if z3.is_int_value(v):
        return Fraction(v.as_long())
    if z3.is_true(v):
        return True
    if z3.is_false(v):
        return False
    raise S.SymError(f"cannot read model value {v}")


class Result:
    __slots__ = ("status", "model", "time", "tag")

    def __init__(self, status, model=None, time_=0.0, tag=""):
        self.status = status
        self.model = model
        self.time = time_
        self.tag = tag

    @property
    def proved(self):
        return self.status == "unsat"

    def __repr__(self):
        return f"Result({self.status}, {self.tag}, {self.time:.3f}s)"


def check_sat(constraints, timeout_ms=20000, tag="", extra_z3=(), tactic=None, want_model=True):
    """Satisfiability of the conjunction of Sym booleans.  Returns Result."""
    tr = Translator()
    zs = [tr(S.lift(c)) for c in constraints]
    t0 = time.time()
    if tactic:
        s = z3.Tactic(tactic).solver()
    else:
        s = z3.Solver()
    s.set("timeout", int(timeout_ms))
    for z in zs:
        s.add(z)
    for z in tr.side:
        s.add(z)
    for z in extra_z3:
        s.add(z)
    r = s.check()
    dt = time.time() - t0
    status = str(r)
    model = None
    if status == "sat" and want_model:
        m = s.model()
        model = {}
        for v, e in tr.vars.items():
            try:
                model[v] = _val_to_fraction(m.eval(e, model_completion=True))
            except S.SymError:
                model[v] = Fraction(0)
        model["__apps__"] = []
        for n, e in tr.apps:
            try:
                model["__apps__"].append((n, _val_to_fraction(m.eval(e, model_completion=True))))
            except S.SymError:
                pass
    STATS.record(tag or "untagged", status, dt, len(tr.vars))
    return Result(status, model, dt, tag)


def _model_ok(cons, model):
    """exact re-evaluation of the constraints under a model (when no uninterpreted application occurs)"""
    try:
        env = {v: val for v, val in model.items() if isinstance(v, Sym)}
        for v in S.free_vars(cons):
            env.setdefault(v, Fraction(0) if v.sort == S.REAL else False)
        vals = S.evaluate_exact(cons, env)
        return all(bool(vals[c.hid]) for c in cons)
    except (S.SymError, ZeroDivisionError, KeyError):
        return None


def prove(hyps, claim, timeout_ms=20000, tag="", retry=True, prefer="smt"):
    """Is `claim` implied by `hyps`?  unsat of hyps & not claim.  sat -> model of the negation.
    Strategy: (1) z3's `smt` tactic (linear arithmetic + incremental non-linear lemmas; an `unsat`
    from it is sound and usually immediate for identities that hold structurally), (2) the default
    solver (nlsat for QF_NRA), (3) the qfnra-nlsat tactic."""
    claim = S.lift(claim)
    if claim is S.TRUE:
        STATS.record((tag or "untagged") + ":trivial", "unsat", 0.0, 0)
        return Result("unsat", None, 0.0, tag)
    cons = [S.lift(h) for h in hyps] + [S.Not(claim)]
    if prefer == "smt":
        r = check_sat(cons, timeout_ms=1500, tag=tag, tactic="smt")
        if r.status == "unsat":
            return r
        if r.status == "sat" and _model_ok(cons, r.model) is not False:
            return r
    r = check_sat(cons, timeout_ms=timeout_ms, tag=tag + ":nlsat")
    if r.status == "unknown" and retry:
        for tac in ("smt", "qfnra-nlsat"):
            r2 = check_sat(cons, timeout_ms=timeout_ms, tag=tag + ":retry-" + tac, tactic=tac)
            if r2.status == "unsat" or (r2.status == "sat" and _model_ok(cons, r2.model) is not False):
                return r2
    return r


def find_model_by_concretisation(hyps, negated_claim, rng: random.Random, tries=20, keep=(8, 4, 0), timeout_ms=5000, tag=""):
    """Model search aid: strengthen the query with a random rational assignment of most variables.
    A sat answer of a strengthened query is a genuine model of the original."""
    cons = list(hyps) + [negated_claim]
    fv = sorted(S.free_vars(cons), key=lambda v: v.hid)
    fv = [v for v in fv if v.args[0] != S.PI_NAME and v.sort == S.REAL]
    for t in range(tries):
        k = keep[min(t * len(keep) // tries, len(keep) - 1)]
        free = set(rng.sample(fv, min(k, len(fv))))
        fix = [S._cmp("eq", v, S.const(Fraction(rng.randint(-40, 40), rng.choice([1, 2, 3, 4, 5, 8])))) for v in fv if v not in free]
        r = check_sat(cons + fix, timeout_ms=timeout_ms, tag=tag + ":concretised")
        if r.status == "sat":
            return r
    return Result("unknown", None, 0.0, tag)


def has_apps(roots):
    return any(n.op == "app" for n in S.topo([S.lift(r) for r in roots]))


def numeric_witness(hyps, goals, seed_model, rng: random.Random, tries=400):
    """Queries with transcendental applications are decided over an abstraction (one real per application +
    axioms): an `unsat` is sound, but the model of a `sat` need not respect the true functions.  This looks
    for a point where the hypotheses and one of `goals` (Sym booleans, in order of preference) hold under
    FLOAT evaluation with the true functions; the caller confirms it with the solver (concretised query) and
    by replay on the real code.  Returns {var Sym: Fraction} or None."""
    hyps = [S.lift(h) for h in hyps]
    goals = [S.lift(g) for g in goals]
    fv = sorted(S.free_vars(hyps + goals), key=lambda v: v.hid)
    rv = [v for v in fv if v.sort == S.REAL and v.args[0] != S.PI_NAME]
    bv = [v for v in fv if v.sort != S.REAL]
    seed = {v: seed_model.get(v) for v in rv} if seed_model else {}

    def sample(t):
        env = {}
        for v in rv:
            base = seed.get(v)
            mode = rng.random()
            if t == 0 and base is not None:
                x = Fraction(base)
            elif base is not None and mode < 0.3:
                x = Fraction(base) + Fraction(rng.randint(-50, 50), 1000)
            elif mode < 0.65:
                x = Fraction(rng.randint(1, 999), 1000)
            elif mode < 0.9:
                x = Fraction(rng.randint(-1000, 1000), 1000)
            else:
                x = Fraction(rng.randint(-4000, 4000), 400)
            env[v] = x
        for v in bv:
            env[v] = bool(seed_model.get(v, False)) if seed_model else False
        return env

    for t in range(tries):
        env = sample(t)
        fenv = {v: (float(x) if isinstance(x, Fraction) else x) for v, x in env.items()}
        try:
            val = S.evaluate(hyps + goals, fenv)
        except (S.SymError, ZeroDivisionError, KeyError, ValueError, OverflowError):
            continue
        if not all(val[h.hid] is True or val[h.hid] == 1 for h in hyps):
            continue
        for g in goals:
            if val[g.hid]:
                return env
    return None
