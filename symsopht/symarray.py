"""ndarray subclass carrying Sym elements: numpy does the shape logic, Sym the arithmetic."""
from __future__ import annotations

import operator
from fractions import Fraction

import numpy as np

from . import sym as S
from .sym import Sym


def _f1(fn):
    return np.frompyfunc(fn, 1, 1)


def _f2(fn):
    return np.frompyfunc(fn, 2, 1)


def _l(x):
    r = S.lift(x)
    if r is NotImplemented:
        raise S.SymError(f"cannot lift {type(x)} into Sym")
    return r


def _floor_divide(a, b):
    return S.floor(_l(a) / _l(b))


def _pow(a, b):
    return _l(a) ** b


def _sign(a):
    a = _l(a)
    return S.ite(a > 0, S.ONE, S.ite(a < 0, -S.ONE, S.ZERO))


_TABLE = {
    np.add: _f2(lambda a, b: _l(a) + _l(b)),
    np.subtract: _f2(lambda a, b: _l(a) - _l(b)),
    np.multiply: _f2(lambda a, b: _l(a) * _l(b)),
    np.divide: _f2(lambda a, b: _l(a) / _l(b)),
    np.true_divide: _f2(lambda a, b: _l(a) / _l(b)),
    np.floor_divide: _f2(_floor_divide),
    np.power: _f2(_pow),
    np.negative: _f1(lambda a: -_l(a)),
    np.positive: _f1(lambda a: _l(a)),
    np.absolute: _f1(lambda a: S.sabs(_l(a))),
    np.fabs: _f1(lambda a: S.sabs(_l(a))),
    np.sqrt: _f1(lambda a: S.sqrt(_l(a))),
    np.square: _f1(lambda a: _l(a) * _l(a)),
    np.cos: _f1(lambda a: S.app("cos", _l(a))),
    np.sin: _f1(lambda a: S.app("sin", _l(a))),
    np.exp: _f1(lambda a: S.app("exp", _l(a))),
    np.log: _f1(lambda a: S.app("log", _l(a))),
    np.floor: _f1(lambda a: S.floor(_l(a))),
    np.rint: _f1(lambda a: _l(a).rint()),
    np.sign: _f1(_sign),
    np.conjugate: _f1(lambda a: _l(a)),
    np.minimum: _f2(lambda a, b: S.smin(_l(a), _l(b))),
    np.maximum: _f2(lambda a, b: S.smax(_l(a), _l(b))),
    np.less: _f2(lambda a, b: _l(a) < _l(b)),
    np.less_equal: _f2(lambda a, b: _l(a) <= _l(b)),
    np.greater: _f2(lambda a, b: _l(a) > _l(b)),
    np.greater_equal: _f2(lambda a, b: _l(a) >= _l(b)),
    np.equal: _f2(lambda a, b: _l(a) == _l(b)),
    np.not_equal: _f2(lambda a, b: _l(a) != _l(b)),
    np.logical_and: _f2(lambda a, b: S.And(_l(a), _l(b))),
    np.logical_or: _f2(lambda a, b: S.Or(_l(a), _l(b))),
    np.logical_not: _f1(lambda a: S.Not(_l(a))),
    np.bitwise_and: _f2(lambda a, b: S.And(_l(a), _l(b))),
    np.bitwise_or: _f2(lambda a, b: S.Or(_l(a), _l(b))),
    np.invert: _f1(lambda a: S.Not(_l(a))),
}


def lift_array(x, f32=None):
    """numeric ndarray -> object ndarray of Sym constants (reading rule applied)"""
    x = np.asarray(x)
    if x.dtype == object:
        return x
    out = np.empty(x.shape, dtype=object)
    flat = out.reshape(-1)
    src = x.reshape(-1)
    if np.iscomplexobj(src):
        raise S.SymError("complex numeric array in real symbolic arithmetic")
    is32 = x.dtype == np.float32 if f32 is None else f32
    for i in range(src.size):
        v = src[i]
        if is32 and isinstance(v, np.floating):
            flat[i] = _lift32(v)
        else:
            flat[i] = _l(v)
    return out


def _lift32(v):
    r = S.read_float(float(v), f32=True)
    if isinstance(r, tuple):
        return S.scale(S.PI, r[1]) if r[0] == "pi" else S.scale(Sym("inv", (S.PI,), S.REAL), r[1])
    return S.const(r)


class SymArray(np.ndarray):
    """object ndarray whose elements are Sym (or anything liftable)."""

    # higher than Sym (1000): `arr *= sym_scalar` must stay an IN-PLACE ufunc call on the array (numpy defers to the operand
    # with the higher priority even for in-place operators, which would silently turn it into a re-binding)
    __array_priority__ = 2000.0

    def __new__(cls, shape):
        return np.ndarray.__new__(cls, shape, dtype=object)

    def __array_finalize__(self, obj):
        pass

    def __array_ufunc__(self, ufunc, method, *inputs, out=None, **kw):
        if ufunc is np.matmul and method == "__call__":
            a, b = inputs
            if np.ndim(a) > 2 or np.ndim(b) > 2:
                raise S.SymError("batched matmul on symbolic arrays")
            return _np_dot(a, b, out=(out[0] if out else None))
        f = _TABLE.get(ufunc)
        if f is None:
            raise S.SymError(f"ufunc {ufunc.__name__} has no symbolic mapping")
        ins = []
        for x in inputs:
            if isinstance(x, SymArray):
                ins.append(x.view(np.ndarray))
            elif isinstance(x, np.ndarray) and x.dtype != object:
                ins.append(lift_array(x))
            elif isinstance(x, np.floating):
                ins.append(S.lift(x))  # keeps the single-precision reading of np.float32 scalars
            else:
                ins.append(x)
        kw.pop("dtype", None)
        kw.pop("casting", None)
        kw.pop("subok", None)
        if method == "__call__":
            where = kw.pop("where", True)
            if where is not True:
                raise S.SymError("where= in symbolic ufunc")
            if kw:
                raise S.SymError(f"unsupported ufunc kwargs {kw}")
            res = f(*ins)
            if out is not None:
                (o,) = out
                if isinstance(o, np.ndarray):
                    if o.dtype != object:
                        raise S.SymError("symbolic result written into a numeric array")
                    o[...] = res
                    return o
                raise S.SymError("bad out")
            if isinstance(res, np.ndarray):
                return res.view(SymArray)
            return res
        if method == "reduce":
            axis = kw.pop("axis", 0)
            keepdims = kw.pop("keepdims", False)
            kw.pop("initial", None)
            (a,) = ins
            if axis is None:
                axis = tuple(range(np.ndim(a)))
            if isinstance(axis, tuple):
                # object ufuncs reduce one axis at a time: highest axis first (order is immaterial in exact arithmetic)
                res = a
                for ax in sorted((x % np.ndim(a) for x in axis), reverse=True):
                    res = f.reduce(res, axis=ax, keepdims=keepdims)
            else:
                res = f.reduce(a, axis=axis, keepdims=keepdims)
            if out is not None:
                (o,) = out
                o[...] = res
                return o
            if isinstance(res, np.ndarray):
                return res.view(SymArray)
            return res
        if method == "at":
            # np.add.at(a, idx, b)
            a, idx, b = ins
            f.at(a, idx, b)
            return None
        raise S.SymError(f"ufunc method {method} unsupported on SymArray")

    def astype(self, dtype, *a, **k):
        if dtype in (int, np.int64, np.int32, np.intp):
            out = np.empty(self.shape, dtype=np.int64)
            of = out.reshape(-1)
            sf = self.reshape(-1)
            for i in range(sf.size):
                of[i] = int(sf[i])
            return out
        # astype(real_t): identity in exact arithmetic (returns a copy like numpy)
        return self.copy()

    def copy(self, order="C"):
        return np.ndarray.copy(self.view(np.ndarray), order=order).view(SymArray)

    @property
    def real(self):
        return self

    def any(self, axis=None, **kw):
        return _np_any(self, axis=axis)

    def all(self, axis=None, **kw):
        return _np_all(self, axis=axis)

    def max(self, axis=None, **kw):
        return _np_amax(self, axis=axis, **kw)

    def min(self, axis=None, **kw):
        return _np_amin(self, axis=axis, **kw)

    def sum(self, axis=None, **kw):
        return np.add.reduce(self, axis=axis) if axis is not None else _sum_all(self)

    def __array_function__(self, func, types, args, kwargs):
        h = _FUNCS.get(func)
        if h is not None:
            return h(*args, **kwargs)
        # default: run numpy's implementation with SymArrays treated as plain ndarrays
        return super().__array_function__(func, types, args, kwargs)


def _sum_all(a):
    acc = S.ZERO
    for v in np.asarray(a).reshape(-1):
        acc = acc + _l(v)
    return acc


def _np_sum(a, axis=None, keepdims=False, **kw):
    if axis is None and not keepdims:
        return _sum_all(a)
    return np.add.reduce(a if isinstance(a, SymArray) else sym_view(a), axis=axis, keepdims=keepdims)


def _np_amax(a, axis=None, initial=None, **kw):
    if axis is not None:
        return np.maximum.reduce(a, axis=axis)
    acc = None if initial is None else _l(initial)
    for v in np.asarray(a).reshape(-1):
        acc = _l(v) if acc is None else S.smax(acc, _l(v))
    return acc


def _np_amin(a, axis=None, initial=None, **kw):
    if axis is not None:
        return np.minimum.reduce(a, axis=axis)
    acc = None if initial is None else _l(initial)
    for v in np.asarray(a).reshape(-1):
        acc = _l(v) if acc is None else S.smin(acc, _l(v))
    return acc


def _np_norm(a, ord=None, axis=None, keepdims=False):
    if ord not in (None, 2) :
        raise S.SymError("only 2-norm supported symbolically")
    a = sym_view(a)
    sq = a * a
    if axis is None:
        return S.sqrt(_sum_all(sq))
    res = np.add.reduce(sq, axis=axis, keepdims=keepdims)
    return np.sqrt(res)


def _np_where(c, a=None, b=None):
    if a is None:
        raise S.SymError("np.where(cond) on symbolic")
    return _f3(S.ite)(np.asarray(c), np.asarray(a) if not np.isscalar(a) else a, np.asarray(b) if not np.isscalar(b) else b).view(SymArray)


def _f3(fn):
    return np.frompyfunc(fn, 3, 1)


def _np_cross(a, b, axis=-1, axisa=-1, axisb=-1, axisc=-1):
    a = np.moveaxis(sym_view(a), axisa if axis == -1 else axis, -1)
    b = np.moveaxis(sym_view(b), axisb if axis == -1 else axis, -1)
    out = SymArray(np.broadcast_shapes(a.shape, b.shape))
    out[..., 0] = a[..., 1] * b[..., 2] - a[..., 2] * b[..., 1]
    out[..., 1] = a[..., 2] * b[..., 0] - a[..., 0] * b[..., 2]
    out[..., 2] = a[..., 0] * b[..., 1] - a[..., 1] * b[..., 0]
    return np.moveaxis(out, -1, axisc if axis == -1 else axis)


def _plain(a):
    if isinstance(a, SymArray):
        return a.view(np.ndarray)
    a = np.asarray(a)
    if a.dtype == object:
        return a
    return lift_array(a)


def _np_dot(a, b, out=None):
    r = np.dot(_plain(a), _plain(b))
    if isinstance(r, np.ndarray):
        r = r.view(SymArray)
    if out is not None:
        if not isinstance(out, np.ndarray) or out.dtype != object:
            raise S.SymError("symbolic dot result written into a numeric array")
        out[...] = r
        return out
    return r


def _np_zeros_like(a, dtype=None, **kw):
    if dtype is not None and dtype is not object:
        return np.zeros(np.shape(a), dtype=dtype)
    out = SymArray(np.shape(a))
    out[...] = S.ZERO
    return out


def _np_allclose(a, b, rtol=1e-5, atol=1e-8, equal_nan=False):
    a, b = np.broadcast_arrays(sym_view(a), sym_view(b))
    cond = S.TRUE
    for x, y in zip(a.reshape(-1), b.reshape(-1)):
        x, y = _l(x), _l(y)
        cond = S.And(cond, S.sabs(x - y) <= S.lift(atol) + S.lift(rtol) * S.sabs(y))
    return cond


def _np_isclose(a, b, rtol=1e-5, atol=1e-8, equal_nan=False):
    """elementwise |a - b| <= atol + rtol*|b| (numpy's definition); a Sym for scalars, a SymArray otherwise"""
    scalar = np.ndim(a) == 0 and np.ndim(b) == 0
    a, b = np.broadcast_arrays(sym_view(a), sym_view(b))
    out = SymArray(a.shape)
    for idx in np.ndindex(*a.shape):
        x, y = _l(a[idx]), _l(b[idx])
        out[idx] = S.sabs(x - y) <= S.lift(atol) + S.lift(rtol) * S.sabs(y)
    return out[()] if scalar else out


def _truth(v):
    v = _l(v)
    return v if v.sort == S.BOOL else S.Not(S._cmp("eq", v, S.ZERO))


def _np_any(a, axis=None, **kw):
    if axis is not None:
        raise S.SymError("np.any with axis on symbolic data")
    return S.Or(*[_truth(v) for v in np.asarray(a).reshape(-1)])


def _np_all(a, axis=None, **kw):
    if axis is not None:
        raise S.SymError("np.all with axis on symbolic data")
    return S.And(*[_truth(v) for v in np.asarray(a).reshape(-1)])


_FUNCS = {
    np.any: _np_any,
    np.all: _np_all,
    np.sum: _np_sum,
    np.amax: _np_amax,
    np.max: _np_amax,
    np.amin: _np_amin,
    np.min: _np_amin,
    np.linalg.norm: _np_norm,
    np.where: _np_where,
    np.cross: _np_cross,
    np.dot: _np_dot,
    np.zeros_like: _np_zeros_like,
    np.allclose: _np_allclose,
    np.isclose: _np_isclose,
}


def sym_view(a):
    """any array-like -> SymArray (view when already an object array)"""
    if isinstance(a, SymArray):
        return a
    a = np.asarray(a)
    if a.dtype == object:
        return a.view(SymArray)
    return lift_array(a).view(SymArray)


def fresh(shape, prefix):
    """SymArray of fresh real variables prefix[i,j,..]"""
    out = SymArray(shape)
    for idx in np.ndindex(*out.shape):
        out[idx] = S.var(prefix + "[" + ",".join(map(str, idx)) + "]")
    return out


def constant(arr):
    """SymArray holding the exact (reading-rule) value of every entry of a numeric array"""
    return lift_array(np.asarray(arr)).view(SymArray)


def full(shape, value):
    out = SymArray(shape)
    out[...] = _l(value)
    return out


def to_float(a, env=None):
    """evaluate a SymArray to float64 under env"""
    a = np.asarray(a)
    flat = [_l(v) for v in a.reshape(-1)]
    val = S.evaluate(flat, env or {})
    return np.array([float(val[v.hid]) for v in flat]).reshape(a.shape)


def apply_ufunc(ufunc, *ins):
    """elementwise symbolic ufunc on a mix of Sym scalars / numeric arrays / SymArrays"""
    f = _TABLE[ufunc]
    conv = []
    for x in ins:
        if isinstance(x, SymArray):
            conv.append(x.view(np.ndarray))
        elif isinstance(x, np.ndarray) and x.dtype != object:
            conv.append(lift_array(x))
        elif isinstance(x, np.floating):
            conv.append(S.lift(x))
        else:
            conv.append(x)
    res = f(*conv)
    if isinstance(res, np.ndarray):
        return res.view(SymArray)
    return res


# ---- layout / dtype normalisers that numpy does not dispatch through __array_function__ -------------------------------
# np.require / np.ascontiguousarray / np.asfortranarray with a floating dtype would call float() on every symbolic entry.
# In exact real arithmetic the cast of a field to the floating type it nominally has is the identity, so only the layout
# part of the request is executed (copy exactly when numpy would copy for layout reasons: the object array has the same
# shape/stride structure as the numeric one).  Numeric arrays pass through untouched, so replays run the real thing.
def _layout_only(orig):
    def wrapped(a, dtype=None, *args, **kw):
        if isinstance(a, np.ndarray) and a.dtype == object:
            if dtype is not None and np.issubdtype(np.dtype(dtype), np.floating):
                dtype = None
            res = orig(a, dtype, *args, **kw)
            if isinstance(a, SymArray) and isinstance(res, np.ndarray) and not isinstance(res, SymArray):
                res = res.view(SymArray)
            return res
        return orig(a, dtype, *args, **kw)
    wrapped.__name__ = getattr(orig, "__name__", "wrapped")
    wrapped._symsopht_wrapped = True
    return wrapped


for _n in ("require", "ascontiguousarray", "asfortranarray"):
    _o = getattr(np, _n)
    if not getattr(_o, "_symsopht_wrapped", False):
        setattr(np, _n, _layout_only(_o))
