"""Interpreter for the pystencils backend AST (lowered IR) on symbolic memory.

The IR is what the C printer consumes: loop nest with bounds in `_size_*` symbols, address
arithmetic `ptr[ctr_0*_stride_f_0 + (ctr_1+1)*_stride_f_1]`, expressions, ternaries, libm calls.
Memory is modelled exactly: every bound ndarray contributes its root buffer, element offset and
element strides, so views, slices, negative strides and aliasing behave as in C.

Evaluation is vectorised over the iteration box ("all cells at once").  That equals the sequential
C semantics iff no cell reads or writes an address that another cell writes; this is computed for
every call from the concrete address sets.  If it fails, the hazard is recorded (C15 reports it)
and the call is re-executed cell by cell in C loop order (the 1-thread semantics).
"""
from __future__ import annotations

import math
import operator

import numpy as np
from pystencils.backend.ast import expressions as E
from pystencils.backend.ast import structural as St
from pystencils.codegen.properties import FieldBasePtr, FieldShape, FieldStride

from . import load
from . import sym as S
from .symarray import SymArray, _np_where, apply_ufunc, lift_array


def true_root(arr):
    """the array that owns the memory: follows .base through views AND through numpy's as_strided helper objects
    (whose result has a DummyArray base that in turn refers to the original array)"""
    root = arr
    while True:
        b = root.base
        if isinstance(b, np.ndarray) and b.dtype == root.dtype:
            root = b
        elif b is not None and type(b).__name__ == "DummyArray" and isinstance(getattr(b, "base", None), np.ndarray) and b.base.dtype == root.dtype:
            root = b.base
        else:
            return root


class Mem:
    """root buffer of a bound array, flat"""

    __slots__ = ("root", "flat", "offset", "strides", "shape", "name", "is_obj", "itemsize", "f32")

    def __init__(self, name, arr):
        if not isinstance(arr, np.ndarray):
            raise S.SymError(f"kernel argument {name} is not an ndarray: {type(arr)}")
        root = true_root(arr)
        isz = arr.itemsize
        self.name = name
        self.root = root
        self.itemsize = isz
        self.flat = np.lib.stride_tricks.as_strided(root, shape=(root.size,), strides=(isz,), writeable=True) if root.size else root.reshape(-1)
        lo = root.__array_interface__["data"][0]
        if root.ndim and any(s < 0 for s in root.strides):
            raise S.SymError("root buffer with negative strides")
        off = arr.__array_interface__["data"][0] - lo
        if off % isz:
            raise S.SymError("unaligned view")
        self.offset = off // isz
        self.strides = tuple(s // isz for s in arr.strides)
        self.shape = arr.shape
        self.is_obj = arr.dtype == object
        self.f32 = arr.dtype == np.float32


class Access:
    __slots__ = ("mem", "addr", "write")

    def __init__(self, mem, addr, write):
        self.mem, self.addr, self.write = mem, addr, write


_BIN = {
    E.PsAdd: operator.add,
    E.PsSub: operator.sub,
    E.PsMul: operator.mul,
    E.PsDiv: operator.truediv,
    E.PsGt: operator.gt,
    E.PsGe: operator.ge,
    E.PsLt: operator.lt,
    E.PsLe: operator.le,
}


def _call(name, args):
    a = args[0]
    if name in ("sin", "cos", "exp", "log"):
        if isinstance(a, np.ndarray):
            return apply_ufunc(getattr(np, name), a)
        return S.app(name, S.lift(a))
    if name == "sqrt":
        if isinstance(a, np.ndarray):
            return apply_ufunc(np.sqrt, a)
        return S.sqrt(S.lift(a))
    if name in ("fabs", "abs"):
        if isinstance(a, np.ndarray):
            return apply_ufunc(np.fabs, a)
        return S.sabs(S.lift(a))
    if name in ("fmin", "min"):
        return apply_ufunc(np.minimum, *args) if any(isinstance(x, np.ndarray) for x in args) else S.smin(*args)
    if name in ("fmax", "max"):
        return apply_ufunc(np.maximum, *args) if any(isinstance(x, np.ndarray) for x in args) else S.smax(*args)
    if name == "pow":
        b = args[1]
        if isinstance(b, (S.Sym, np.ndarray)):
            raise S.SymError("pow with non literal exponent")
        return a ** b
    if name == "floor":
        return apply_ufunc(np.floor, a) if isinstance(a, np.ndarray) else S.floor(S.lift(a))
    raise S.SymError(f"IR call to unsupported function {name}")


class Frame:
    def __init__(self, handle, kwargs):
        self.handle = handle
        self.env = {}
        self.mems = {}
        self.accesses = []
        self.writes = []  # (mem, addr, value) deferred
        kernel = handle.kernel
        for p in kernel.parameters:
            props = list(p.properties)
            if not props:
                if p.name not in kwargs:
                    raise S.SymError(f"kernel {handle} missing scalar {p.name}")
                v = kwargs[p.name]
                self.env[p.name] = v if isinstance(v, S.Sym) else S.lift(v)
                continue
            for pr in props:
                fname = pr.field.name
                if fname not in kwargs:
                    raise S.SymError(f"kernel {handle} missing field {fname}")
                m = self.mems.get(fname)
                if m is None:
                    m = self.mems[fname] = Mem(fname, kwargs[fname])
                if isinstance(pr, FieldBasePtr):
                    self.env[p.name] = m
                elif isinstance(pr, FieldShape):
                    self.env[p.name] = int(m.shape[pr.coordinate])
                elif isinstance(pr, FieldStride):
                    self.env[p.name] = int(m.strides[pr.coordinate])
                else:
                    raise S.SymError(f"unknown parameter property {pr}")
        extra = set(kwargs) - set(self.mems) - {p.name for p in kernel.parameters}
        if extra:
            raise TypeError(f"kernel {handle} got unexpected arguments {sorted(extra)}")
        # shape consistency as pystencils' JIT wrapper checks it
        self._check_shapes(kernel)

    def _check_shapes(self, kernel):
        shapes = {}
        for f in kernel.get_fields() if hasattr(kernel, "get_fields") else []:
            pass
        fields = {}
        for p in kernel.parameters:
            for pr in p.properties:
                fields[pr.field.name] = pr.field
        ref = None
        for name, f in fields.items():
            m = self.mems[name]
            if len(m.shape) != f.spatial_dimensions + f.index_dimensions:
                raise ValueError(f"kernel {self.handle}: field {name} has rank {len(m.shape)}, expected {f.spatial_dimensions + f.index_dimensions}")
            sp = tuple(m.shape[: f.spatial_dimensions])
            if ref is None:
                ref = (name, sp)
            elif sp != ref[1]:
                raise ValueError(f"kernel {self.handle}: field {name} shape {sp} differs from {ref[0]} {ref[1]}")

    # ---------------------------------------------------------------------------------
    def ev(self, n, ctr):
        t = type(n)
        if t is E.PsSymbolExpr:
            name = n.symbol.name
            if name in ctr:
                return ctr[name]
            try:
                return self.env[name]
            except KeyError:
                raise S.SymError(f"unbound IR symbol {name}") from None
        if t is E.PsConstantExpr:
            v = n.constant.value
            if isinstance(v, (np.integer, int)):
                return int(v)
            if isinstance(v, (np.bool_, bool)):
                return bool(v)
            return S.lift(v)
        if t is E.PsMemAcc:
            mem = self.ev(n.pointer, ctr)
            idx = self.ev(n.offset, ctr)
            addr = mem.offset + idx
            self.accesses.append(Access(mem, addr, False))
            self._bounds(mem, addr)
            val = mem.flat[addr]
            if isinstance(val, np.ndarray):
                if not mem.is_obj:
                    return lift_array(val, f32=mem.f32).view(SymArray)
                return val.view(SymArray)
            return val if mem.is_obj else S.lift(np.float32(val) if mem.f32 else val)
        if t in _BIN:
            return _BIN[t](self.ev(n.operand1, ctr), self.ev(n.operand2, ctr))
        if t is E.PsNeg:
            return -self.ev(n.operand, ctr)
        if t is E.PsTernary:
            c = self.ev(n.condition, ctr)
            a = self.ev(n.case_then, ctr)
            b = self.ev(n.case_else, ctr)
            if isinstance(c, np.ndarray) or isinstance(a, np.ndarray) or isinstance(b, np.ndarray):
                return _np_where(c, a, b)
            return S.ite(c, a, b)
        if t is E.PsCall:
            return _call(n.function.name, [self.ev(a, ctr) for a in n.args])
        if t is E.PsCast:
            v = self.ev(n.operand, ctr)
            tt = n.target_type
            if type(tt).__name__ in ("PsIeeeFloatType",):
                return v
            if isinstance(v, (int, np.integer)) or (isinstance(v, np.ndarray) and v.dtype != object):
                return v
            raise S.SymError(f"IR cast of symbolic value to {tt}")
        if t is E.PsAnd:
            return S.And(self.ev(n.operand1, ctr), self.ev(n.operand2, ctr)) if not _arr(n, self, ctr) else apply_ufunc(np.logical_and, self.ev(n.operand1, ctr), self.ev(n.operand2, ctr))
        if t is E.PsOr:
            return S.Or(self.ev(n.operand1, ctr), self.ev(n.operand2, ctr)) if not _arr(n, self, ctr) else apply_ufunc(np.logical_or, self.ev(n.operand1, ctr), self.ev(n.operand2, ctr))
        if t is E.PsNot:
            v = self.ev(n.operand, ctr)
            return apply_ufunc(np.logical_not, v) if isinstance(v, np.ndarray) else S.Not(v)
        if t is E.PsEq:
            a, b = self.ev(n.operand1, ctr), self.ev(n.operand2, ctr)
            return apply_ufunc(np.equal, a, b) if isinstance(a, np.ndarray) or isinstance(b, np.ndarray) else (S.lift(a) == S.lift(b))
        if t is E.PsNe:
            a, b = self.ev(n.operand1, ctr), self.ev(n.operand2, ctr)
            return apply_ufunc(np.not_equal, a, b) if isinstance(a, np.ndarray) or isinstance(b, np.ndarray) else (S.lift(a) != S.lift(b))
        raise S.SymError(f"IR expression node {t.__name__} unsupported")

    def _bounds(self, mem, addr):
        a = np.asarray(addr)
        if a.size and (a.min() < 0 or a.max() >= mem.flat.size):
            raise IndexError(f"kernel {self.handle}: access to {mem.name} outside its buffer")

    # ---------------------------------------------------------------------------------
    def run_block(self, node, ctr, depth, ndim, sequential=False):
        t = type(node)
        if t is St.PsBlock:
            for ch in node.statements:
                self.run_block(ch, ctr, depth, ndim, sequential)
        elif t in (St.PsPragma, St.PsComment):
            return
        elif t is St.PsLoop:
            start = self.ev(node.start, ctr)
            stop = self.ev(node.stop, ctr)
            step = self.ev(node.step, ctr)
            for v in (start, stop, step):
                if not isinstance(v, (int, np.integer)):
                    raise S.SymError("non-rectangular or symbolic loop bound")
            if step != 1:
                raise S.SymError("loop step != 1")
            name = node.counter.symbol.name
            self.loops.append((name, int(start), int(stop)))
            if stop <= start:
                self.empty = True
                return
            if sequential:
                rng = range(int(start), int(stop))
                for i in (reversed(rng) if getattr(self, "reverse", False) else rng):
                    c2 = dict(ctr)
                    c2[name] = i
                    self.run_block(node.body, c2, depth + 1, ndim, True)
            else:
                shape = [1] * ndim
                shape[depth] = int(stop - start)
                c2 = dict(ctr)
                c2[name] = np.arange(int(start), int(stop), dtype=np.int64).reshape(shape)
                self.run_block(node.body, c2, depth + 1, ndim, False)
        elif t is St.PsDeclaration:
            self.env[node.declared_symbol.name] = self.ev(node.rhs, ctr)
        elif t is St.PsAssignment:
            lhs = node.lhs
            val = self.ev(node.rhs, ctr)
            if type(lhs) is E.PsSymbolExpr:
                self.env[lhs.symbol.name] = val
                return
            if type(lhs) is not E.PsMemAcc:
                raise S.SymError(f"assignment to {type(lhs).__name__}")
            mem = self.ev(lhs.pointer, ctr)
            addr = mem.offset + self.ev(lhs.offset, ctr)
            self._bounds(mem, addr)
            self.accesses.append(Access(mem, addr, True))
            if not mem.is_obj:
                raise S.SymError(f"kernel {self.handle}: symbolic value written to numeric array '{mem.name}'")
            if sequential:
                mem.flat[addr] = S.lift(val)
            else:
                box = tuple(b - a for _, a, b in self.loops)
                self.writes.append((mem, np.broadcast_to(addr, box), val, box))
                # statement order inside one cell: later statements of the same cell may read this
                # write only at the centre; we apply it immediately (vectorised) which is equivalent
                # when the hazard analysis below passes.
                v = val
                if isinstance(v, np.ndarray):
                    v = np.broadcast_to(v, box)
                    mem.flat[np.broadcast_to(addr, box)] = np.asarray(v)
                else:
                    tmp = np.empty(box, dtype=object)
                    tmp[...] = S.lift(v)
                    mem.flat[np.broadcast_to(addr, box)] = tmp
        elif t is St.PsConditional:
            raise S.SymError("IR conditional statement unsupported")
        else:
            raise S.SymError(f"IR statement {t.__name__} unsupported")


def _arr(n, fr, ctr):
    return True


def _loop_depth(node):
    if type(node) is St.PsLoop:
        return 1 + _loop_depth(node.body)
    if type(node) is St.PsBlock:
        return max([_loop_depth(c) for c in node.statements] + [0])
    return 0


def hazards_of(frame):
    """cross-cell conflicts: a written address that another cell reads or writes"""
    box = tuple(b - a for _, a, b in frame.loops)
    ncell = int(np.prod(box)) if box else 1
    out = []
    cell = np.arange(ncell).reshape(box) if box else np.zeros((), dtype=int)
    writes = [a for a in frame.accesses if a.write]
    for w in writes:
        wa = np.broadcast_to(w.addr, box).reshape(-1)
        wc = cell.reshape(-1)
        order = np.argsort(wa, kind="stable")
        was, wcs = wa[order], wc[order]
        dup = np.nonzero(was[1:] == was[:-1])[0]
        if dup.size and np.any(wcs[1:][dup] != wcs[:-1][dup]):
            out.append({"kind": "write-write", "field": w.mem.name})
            continue
        for x in frame.accesses:
            if x is w or x.mem.root is not w.mem.root:
                continue
            xa = np.broadcast_to(x.addr, box).reshape(-1)
            pos = np.searchsorted(was, xa)
            pos[pos >= was.size] = was.size - 1
            hit = was[pos] == xa
            if np.any(hit & (wcs[pos] != wc)):
                i = int(np.nonzero(hit & (wcs[pos] != wc))[0][0])
                out.append({
                    "kind": "write-read" if not x.write else "write-write",
                    "written": w.mem.name,
                    "other": x.mem.name,
                    "cell_reading": [int(v) for v in np.unravel_index(i, box)],
                    "cell_writing": [int(v) for v in np.unravel_index(int(wcs[pos][i]), box)],
                })
    return out


FORCE_SEQUENTIAL = [None]  # None | "fwd" | "rev": interpret every kernel cell by cell (schedule-dependence demos)


def run_kernel(handle, kwargs):
    if FORCE_SEQUENTIAL[0]:
        return run_sequential(handle, kwargs, reverse=(FORCE_SEQUENTIAL[0] == "rev"))
    body = handle.kernel.body
    ndim = _loop_depth(body)
    # snapshot of object memory for the sequential fallback
    fr = Frame(handle, kwargs)
    fr.loops = []
    fr.empty = False
    snaps = [(m, m.flat.copy()) for m in {id(m.root): m for m in fr.mems.values()}.values() if m.is_obj]
    fr.run_block(body, {}, 0, ndim, False)
    hz = [] if fr.empty else hazards_of(fr)
    if load.LOG_CALLS[0]:
        load.CALL_LOG.append({
            "handle": handle,
            "box": [(a, b) for _, a, b in fr.loops],
            "fields": {n: (id(m.root), m.offset, m.strides, m.shape) for n, m in fr.mems.items()},
            "hazards": hz,
        })
    if hz:
        load.HAZARDS.append({"kernel": repr(handle), "site": handle.site[:3], "hazards": hz[:3]})
        for m, snap in snaps:
            m.flat[...] = snap
        fr2 = Frame(handle, kwargs)
        fr2.loops = []
        fr2.empty = False
        fr2.run_block(body, {}, 0, ndim, True)
    return None


def run_numeric(handle, kwargs):
    """Interpret the IR on float arrays (translator validation): SymArray copies in, floats out."""
    from .symarray import constant, to_float

    sym_kwargs = {}
    roots = {}
    for k, v in kwargs.items():
        if isinstance(v, np.ndarray):
            root = true_root(v)
            key = id(root)
            if key not in roots:
                roots[key] = (root, constant(root))
            sroot = roots[key][1]
            off = (v.__array_interface__["data"][0] - root.__array_interface__["data"][0]) // v.itemsize
            sv = np.lib.stride_tricks.as_strided(sroot.reshape(-1)[off:], shape=v.shape, strides=tuple(s // v.itemsize * 8 for s in v.strides))
            sym_kwargs[k] = sv.view(SymArray)
        else:
            sym_kwargs[k] = v
    run_kernel(handle, sym_kwargs)
    return {key: to_float(sroot) for key, (root, sroot) in roots.items()}, roots


def run_sequential(handle, kwargs, reverse=False):
    """cell-by-cell interpretation in C loop order (or the reversed order): schedule-dependence demo"""
    fr = Frame(handle, kwargs)
    fr.loops = []
    fr.empty = False
    fr.reverse = reverse
    fr.run_block(handle.kernel.body, {}, 0, _loop_depth(handle.kernel.body), True)
