"""Loading the real SophT code for symbolic execution (DESIGN 4.1, 4.3).

* pystencils.CreateKernelConfig: drop the keyword pystencils 2.0 rejects.
* pystencils.create_kernel: returns a KernelHandle wrapping the real pystencils Kernel
  (assignments + lowered backend AST).  `.compile()` gives a callable which dispatches:
  numeric arguments -> the genuinely compiled kernel, symbolic arguments -> interpretation
  of the backend AST (the compiler's IR: loop nest, address arithmetic, expressions).
"""
from __future__ import annotations

import os
import sys
import warnings

import numpy as np

from . import sym as S
from .symarray import SymArray, _np_where, lift_array

_BOOTSTRAPPED = False
HANDLES: list = []  # every kernel handle created, in creation order
CALL_LOG: list = []  # symbolic kernel calls (for C15): dicts
HAZARDS: list = []  # cross-cell read/write overlaps seen during interpretation
LOG_CALLS = [False]


def bootstrap(disable_jit=True):
    """Must run before `import sopht`."""
    global _BOOTSTRAPPED
    if _BOOTSTRAPPED:
        return
    if disable_jit:
        os.environ["NUMBA_DISABLE_JIT"] = "1"
    if "sopht" in sys.modules:
        raise S.SymError("bootstrap() must be called before sopht is imported")
    warnings.filterwarnings("ignore", category=FutureWarning)
    warnings.filterwarnings("ignore", category=UserWarning)
    import pystencils as ps

    # pystencils 2.0 names only three spatial loop counters; SophT's 3-D "vector" element-wise
    # kernels are declared over 4-D fields (pystencils 1.x accepted that).  Supplying a fourth
    # counter name is all 2.0 needs (probe: generated loop nest and compiled result are correct).
    from pystencils.defaults import DEFAULTS
    from pystencils.sympyextensions.typed_sympy import DynamicType, TypedSymbol

    if len(DEFAULTS.spatial_counter_names) < 4:
        DEFAULTS.spatial_counter_names = tuple(f"ctr_{i}" for i in range(4))
        DEFAULTS.spatial_counters = tuple(TypedSymbol(f"ctr_{i}", DynamicType.INDEX_TYPE) for i in range(4))

    orig_cfg = ps.CreateKernelConfig

    def create_kernel_config(*a, **kw):
        kw.pop("default_number_float", None)
        return orig_cfg(*a, **kw)

    ps.CreateKernelConfig = create_kernel_config
    orig_ck = ps.create_kernel

    def create_kernel(assignments, config=None, **kw):
        k = orig_ck(assignments, config=config, **kw)
        h = KernelHandle(assignments, config, k, _creation_site())
        HANDLES.append(h)
        return h

    ps.create_kernel = create_kernel
    _BOOTSTRAPPED = True


def _creation_site():
    f = sys._getframe(2)
    names = []
    while f is not None and len(names) < 6:
        fn = f.f_code.co_filename
        if "/sopht/" in fn:
            names.append((f.f_code.co_name, os.path.basename(fn), f.f_lineno))
        f = f.f_back
    return names


def _has_sym(x):
    if isinstance(x, S.Sym):
        return True
    return isinstance(x, np.ndarray) and x.dtype == object


class KernelHandle:
    def __init__(self, assignments, config, kernel, site):
        self.assignments = assignments
        self.config = config
        self.kernel = kernel
        self.site = site
        self._compiled = None
        self.name = site[0][0] if site else "?"
        self.gen = next((n for n, _, _ in site if n.startswith("gen_")), self.name)
        self.n_sym_calls = 0
        self.n_num_calls = 0

    def compile(self):
        return KernelCallable(self)

    @property
    def compiled(self):
        if self._compiled is None:
            self._compiled = self.kernel.compile()
        return self._compiled

    def __repr__(self):
        return f"<KernelHandle {self.gen}:{self.name}>"


class KernelCallable:
    def __init__(self, handle):
        self.handle = handle

    def __call__(self, **kwargs):
        h = self.handle
        if any(_has_sym(v) for v in kwargs.values()):
            h.n_sym_calls += 1
            from .interp import run_kernel

            return run_kernel(h, kwargs)
        h.n_num_calls += 1
        return h.compiled(**kwargs)


def import_sopht():
    bootstrap()
    import sopht  # noqa
    import sopht.numeric.eulerian_grid_ops as spne
    import sopht.simulator as sps
    import sopht.utils as spu

    return sopht, spne, sps, spu


def repo_file_hashes(files):
    import hashlib

    out = {}
    for f in files:
        p = os.path.join("/repo", f)
        try:
            out[f] = hashlib.sha256(open(p, "rb").read()).hexdigest()[:16]
        except OSError:
            out[f] = "missing"
    return out


# ------------------------------------------------------------------------------------------------
# public-kernel frames (C15b, wrapper level): the callables returned by the gen_* functions are Python
# wrappers around one or several compiled kernels.  While LOG_CALLS is on, every call of such a wrapper
# records the memory extent of each array argument and which entries of CALL_LOG it produced.
# ------------------------------------------------------------------------------------------------
PUBLIC_FRAMES: list = []
_PATCHED: dict = {}


def extent_of(arr):
    """(id of the typed root buffer, element offset, element strides, shape) - the memory model of interp.Mem"""
    from .interp import true_root

    root = true_root(arr)
    isz = arr.itemsize
    off = (arr.__array_interface__["data"][0] - root.__array_interface__["data"][0]) // isz
    return (id(root), int(off), tuple(int(s // isz) for s in arr.strides), tuple(int(n) for n in arr.shape))


class PublicKernel:
    def __init__(self, fn, name):
        self.fn, self.name = fn, name
        self.__name__ = getattr(fn, "__name__", name)
        self.__doc__ = getattr(fn, "__doc__", None)

    def __call__(self, *a, **k):
        if DEALIAS_COMPARE[0]:
            return self._call_compare(*a, **k)
        if not LOG_CALLS[0]:
            return self.fn(*a, **k)
        import inspect

        try:
            bound = inspect.signature(self.fn).bind(*a, **k).arguments
        except (TypeError, ValueError):
            bound = dict(k)
        params = {n: extent_of(v) for n, v in bound.items() if isinstance(v, np.ndarray) and v.size}
        frame = {"name": self.name, "params": params, "first": len(CALL_LOG)}
        try:
            return self.fn(*a, **k)
        finally:
            frame["last"] = len(CALL_LOG)
            PUBLIC_FRAMES.append(frame)

    def _call_compare(self, *a, **k):
        """replay aid (numeric build): when two array arguments share memory, run the wrapper also on de-aliased
        copies; the call is a demonstrated hazard when an output differs between the two runs"""
        import inspect

        try:
            ba = inspect.signature(self.fn).bind(*a, **k)
        except (TypeError, ValueError):
            return self.fn(*a, **k)
        arrs = {n: v for n, v in ba.arguments.items() if isinstance(v, np.ndarray) and v.size}
        names = sorted(arrs)
        shared = [(p, q) for i, p in enumerate(names) for q in names[i + 1:] if np.shares_memory(arrs[p], arrs[q])]
        if not shared:
            return self.fn(*a, **k)
        copies = {n: v.copy() for n, v in arrs.items()}
        before = {n: v.copy() for n, v in arrs.items()}
        args2 = dict(ba.arguments)
        args2.update(copies)
        DEALIAS_COMPARE[0] = False  # nested public kernels run plainly inside the comparison
        try:
            self.fn(**args2)
            res = self.fn(*a, **k)
        finally:
            DEALIAS_COMPARE[0] = True
        for n in names:
            changed = not np.array_equal(copies[n], before[n], equal_nan=True)
            if changed and not np.allclose(copies[n], arrs[n], rtol=1e-9, atol=1e-12, equal_nan=True):
                DEALIAS_FINDINGS.append(f"{self.name}({', '.join(names)}): arguments {shared} share memory and output '{n}' differs from the "
                                        f"de-aliased call by {float(np.nanmax(np.abs(copies[n] - arrs[n]))):.3g}")
        return res

    def __getattr__(self, item):
        return getattr(self.fn, item)


DEALIAS_COMPARE = [False]
DEALIAS_FINDINGS: list = []


def patch_public_generators():
    """spne.gen_* -> generators whose returned callables are PublicKernel objects (undo with unpatch_public_generators)"""
    import sopht.numeric.eulerian_grid_ops as spne

    for name in list(getattr(spne, "__all__", [])):
        if not name.startswith("gen_") or name in _PATCHED:
            continue
        orig = getattr(spne, name)

        def make(orig=orig, name=name):
            def gen(*a, **k):
                f = orig(*a, **k)
                return PublicKernel(f, name) if callable(f) and not isinstance(f, PublicKernel) else f

            gen.__name__ = name
            gen.__wrapped__ = orig
            return gen

        _PATCHED[name] = orig
        setattr(spne, name, make())


def unpatch_public_generators():
    import sopht.numeric.eulerian_grid_ops as spne

    for name, orig in _PATCHED.items():
        setattr(spne, name, orig)
    _PATCHED.clear()
