"""Exact-DFT stand-in for pyfftw.FFTW plan objects (contract: r2c forward = unnormalised DFT keeping
the non-redundant half along the last axis; c2r backward = complex inverse DFTs along the leading
axes of the half spectrum followed by the 1-D half-complex-to-real transform along the last axis,
normalised by the number of points, as pyfftw's default `normalise_idft=True` does).

Works on float arrays (validation against real pyfftw) and on symbolic arrays whose elements are
linear forms; twiddle factors are 40-digit rationals (exact for the multiples of pi/2)."""
from __future__ import annotations

from fractions import Fraction
from functools import lru_cache

import numpy as np

from . import sym as S
from .graph import ComplexSym
from .symarray import SymArray

DIGITS = 45


@lru_cache(maxsize=None)
def _twiddle(N, exact):
    """[(cos 2 pi m/N, sin 2 pi m/N) for m in range(N)] as Fractions (exact=True) or floats"""
    out = []
    if not exact:
        for m in range(N):
            out.append((float(np.cos(2 * np.pi * m / N)), float(np.sin(2 * np.pi * m / N))))
        return out
    import sympy as sp

    for m in range(N):
        c = sp.cos(2 * sp.pi * sp.Rational(m, N))
        s_ = sp.sin(2 * sp.pi * sp.Rational(m, N))
        vals = []
        for v in (c, s_):
            if v.is_Rational:
                vals.append(Fraction(int(v.p), int(v.q)))
            else:
                f = sp.N(v, DIGITS)
                vals.append(Fraction(str(f)).limit_denominator(10**40))
        out.append(tuple(vals))
    return out


def _dft_last(re, im, sign, exact, K=None):
    """complex DFT along the last axis: out[k] = sum_n in[n] * exp(sign * 2 pi i k n / N), k < K"""
    N = re.shape[-1]
    K = N if K is None else K
    tw = _twiddle(N, exact)
    ore = np.empty(re.shape[:-1] + (K,), dtype=re.dtype)
    oim = np.empty(re.shape[:-1] + (K,), dtype=re.dtype)
    for k in range(K):
        ar = None
        ai = None
        for n in range(N):
            c, s = tw[(k * n) % N]
            s = s * sign
            # (re + i im) * (c + i s)
            tr = re[..., n] * c - im[..., n] * s
            ti = re[..., n] * s + im[..., n] * c
            ar = tr if ar is None else ar + tr
            ai = ti if ai is None else ai + ti
        ore[..., k] = ar
        oim[..., k] = ai
    return ore, oim


def _dft_axis(re, im, axis, sign, exact, K=None):
    re = np.moveaxis(re, axis, -1)
    im = np.moveaxis(im, axis, -1)
    ore, oim = _dft_last(re, im, sign, exact, K)
    return np.moveaxis(ore, -1, axis), np.moveaxis(oim, -1, axis)


def rfftn(x_re, exact):
    """r2c over all axes; returns (re, im) with last axis N//2+1"""
    nd = x_re.ndim
    N = x_re.shape[-1]
    zero = x_re * 0
    re, im = _dft_axis(x_re, zero, nd - 1, -1, exact, K=N // 2 + 1)
    for ax in range(nd - 2, -1, -1):
        re, im = _dft_axis(re, im, ax, -1, exact)
    return re, im


def irfftn(y_re, y_im, n_last, exact):
    """c2r as FFTW does it, normalised"""
    nd = y_re.ndim
    re, im = y_re, y_im
    for ax in range(nd - 1):
        re, im = _dft_axis(re, im, ax, +1, exact)
    N = n_last
    tw = _twiddle(N, exact)
    out = np.empty(re.shape[:-1] + (N,), dtype=re.dtype)
    half = N // 2
    for n in range(N):
        acc = re[..., 0]
        for k in range(1, (N + 1) // 2):
            c, s = tw[(k * n) % N]
            # 2 * Re((re + i im)(c + i s))
            acc = acc + 2 * (re[..., k] * c - im[..., k] * s)
        if N % 2 == 0:
            acc = acc + re[..., half] * (1 if n % 2 == 0 else -1)
        out[..., n] = acc
    total = N
    for ax in range(nd - 1):
        total *= re.shape[ax]
    if exact:
        return out * Fraction(1, total)
    return out / total


class RFFTStub:
    """callable like a pyfftw.FFTW forward r2c plan: plan(input_array=..., output_array=...)"""

    def __call__(self, input_array=None, output_array=None, **kw):
        if isinstance(output_array, ComplexSym):
            x = np.asarray(input_array)
            if x.dtype != object:
                from .symarray import lift_array

                x = lift_array(x)
            re, im = rfftn(x.view(np.ndarray), True)
            output_array.real[...] = re
            output_array.imag[...] = im
            return output_array
        re, im = rfftn(np.asarray(input_array, dtype=float), False)
        output_array[...] = re + 1j * im
        return output_array


class IRFFTStub:
    def __call__(self, input_array=None, output_array=None, **kw):
        if isinstance(input_array, ComplexSym):
            re = np.asarray(input_array.real).view(np.ndarray)
            im = np.asarray(input_array.imag).view(np.ndarray)
            output_array[...] = irfftn(re, im, output_array.shape[-1], True)
            return output_array
        y = np.asarray(input_array)
        output_array[...] = irfftn(y.real.astype(float), y.imag.astype(float), output_array.shape[-1], False)
        return output_array


def validate_against_pyfftw(shape, real_t=np.float64, seed=0):
    """numeric contract validation: stub vs real pyfftw (forward on real data, backward on arbitrary complex data)"""
    import pyfftw

    rng = np.random.default_rng(seed)
    cdt = np.complex64 if real_t == np.float32 else np.complex128
    a = pyfftw.empty_aligned(shape, dtype=real_t)
    b = pyfftw.empty_aligned(shape[:-1] + (shape[-1] // 2 + 1,), dtype=cdt)
    axes = tuple(range(len(shape)))
    fwd = pyfftw.FFTW(a, b, axes=axes, direction="FFTW_FORWARD", flags=("FFTW_ESTIMATE",))
    bwd = pyfftw.FFTW(b, a, axes=axes, direction="FFTW_BACKWARD", flags=("FFTW_ESTIMATE",))
    x = rng.standard_normal(shape).astype(real_t)
    out = np.zeros_like(b)
    fwd(input_array=x.copy(), output_array=out)
    re, im = rfftn(x.astype(float), False)
    e1 = float(np.max(np.abs(out - (re + 1j * im))))
    y = (rng.standard_normal(b.shape) + 1j * rng.standard_normal(b.shape)).astype(cdt)
    back = np.zeros(shape, dtype=real_t)
    bwd(input_array=y.copy(), output_array=back)
    mine = irfftn(y.real.astype(float), y.imag.astype(float), shape[-1], False)
    e2 = float(np.max(np.abs(back - mine)))
    return e1, e2
