#!/bin/sh
# MANIFEST.setup_cmd: build the overlay venv (repo deps from /venv + z3/crosshair from the offline wheelhouse)
set -e
cd "$(dirname "$0")"
V=/verif/.venv
if [ ! -x "$V/bin/python" ] || ! "$V/bin/python" -c "import z3, crosshair, numpy, sopht" >/dev/null 2>&1; then
  rm -rf "$V"
  /venv/bin/python -m venv "$V"
  SP=$("$V/bin/python" -c "import sysconfig; print(sysconfig.get_paths()['purelib'])")
  printf "import site; site.addsitedir('/venv/lib/python3.12/site-packages')\n" > "$SP/_verif_overlay.pth"
  PIP_NO_INDEX=1 "$V/bin/python" -m pip install -q --no-index --find-links /opt/veriftools/wheels z3-solver crosshair-tool
fi
"$V/bin/python" -c "import z3, crosshair, numpy, sopht; print('venv ok', z3.get_version_string(), numpy.__version__)"
